#!/bin/bash
# Idempotent, offline: overlay venv on /venv (python 3.12 with jade's deps) + z3-solver, crosshair-tool.
set -e
HERE="$(cd "$(dirname "$0")" && pwd)"
VENV="$HERE/.venv"
export PIP_NO_INDEX=1 PIP_DISABLE_PIP_VERSION_CHECK=1
if [ ! -x "$VENV/bin/python" ] || ! "$VENV/bin/python" -c "import z3, crosshair" >/dev/null 2>&1; then
  rm -rf "$VENV"
  /venv/bin/python -m venv "$VENV"
  SP="$("$VENV/bin/python" -c 'import sysconfig; print(sysconfig.get_paths()["purelib"])')"
  printf "import site; site.addsitedir('/venv/lib/python3.12/site-packages')\n/repo\n" > "$SP/_verif_overlay.pth"
  "$VENV/bin/python" -m pip install -q --no-index --find-links /opt/veriftools/wheels z3-solver crosshair-tool >/dev/null
fi
"$VENV/bin/python" -c "import z3, crosshair, jade, pydantic; print('verif venv ok: z3', z3.get_version_string())"
