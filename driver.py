"""./check driver: runs the obligations of one property, replays counterexamples,
matches known findings, writes evidence, sets the exit code.

exit 0  every obligation exhausted within its bounds, no (unlisted) violation
exit 1  VIOLATION property=<id> replay=<path>   (replayed natively, reproduced)
exit 2  inconclusive / harness error (never reported as success, never as a violation)
"""
import argparse
import hashlib
import importlib
import json
import os
import re
import sys
import time
import traceback

HERE = os.path.dirname(os.path.abspath(__file__))
sys.path.insert(0, HERE)

from jsym import runner  # noqa: E402
from jsym import selftest  # noqa: E402


def _tagged(msg, prop):
    m = re.match(r"^((?:C\d\d)(?:/C\d\d)*):", msg)
    return bool(m) and prop in m.group(1).split("/")


def load_known():
    p = os.path.join(HERE, "known_findings.json")
    if not os.path.exists(p):
        return []
    return json.load(open(p))


def match_known(known, prop, ob_name, v):
    for k in known:
        if k.get("kind") != "known" or k.get("property") != prop:
            continue
        sig = k["signature"]
        if sig.get("obligation") and sig["obligation"] != ob_name:
            continue
        if sig.get("message") and sig["message"] not in v["message"]:
            continue
        ctx = v.get("context") or {}
        if any(str(ctx.get(a)) != str(b) for a, b in (sig.get("context") or {}).items()):
            continue
        asg = v.get("assignment") or {}
        if any(str(asg.get(a)) != str(b) for a, b in (sig.get("assignment") or {}).items()):
            continue
        return k
    return None


def run_one(ob, tier, seed):
    kind = ob.get("kind", "jsym")
    if kind == "jsym":
        opts = dict(ob.get("opts") or {})
        if tier == "thorough" and ob.get("cvc5", True):
            opts.update(dump_dir=os.path.join(runner_scratch(), "smt-" + ob["name"]), dump_every=ob.get("dump_every", 97),
                        dump_max=3)
        res = runner.run_obligation(ob["name"], ob["spec"], ob["bounds"], opts, shard_depth=ob.get("shard_depth"))
        if opts.get("dump_dir"):
            res["cvc5"] = runner.cvc5_diff(opts["dump_dir"])
            if res["cvc5"].get("disagree"):
                res["inconclusive"].append("z3/cvc5 disagree on %d sampled queries" % res["cvc5"]["disagree"])
                res["exhausted"] = False
        if res["exhausted"] and not res["stats"].get("reached"):
            res["inconclusive"].append("reachability twin: no path reaches the final assertion point (vacuous harness)")
            res["exhausted"] = False
        return res
    mod = importlib.import_module(ob["spec"][0])
    t = time.time()
    try:
        res = getattr(mod, ob["spec"][1])(**(ob["spec"][2] or {}))
    except Exception as e:
        res = dict(stats={}, violations=[], samples=[], functions=[], exhausted=False,
                   inconclusive=["direct obligation error: %s: %s\n%s" % (type(e).__name__, e, traceback.format_exc()[-1500:])])
    res.setdefault("name", ob["name"])
    res.setdefault("bounds", ob["bounds"])
    res.setdefault("wall_s", round(time.time() - t, 2))
    res["spec"] = list(ob["spec"])
    return res


_SCR = None


def runner_scratch():
    global _SCR
    if _SCR is None:
        from harness.common import scratch_root

        _SCR = scratch_root()
    return _SCR


def do_replay(prop, path):
    data = json.load(open(path))
    spec = tuple(data["spec"])
    if data.get("kind", "jsym") == "jsym":
        status, vs = runner.replay(spec, data["assignment"])
    else:
        mod = importlib.import_module(data["replay"][0])
        status, vs = getattr(mod, data["replay"][1])(data)
    hit = [v for v in vs if v["message"] == data["message"]]
    print("replay status=%s violations=%d matching=%d" % (status, len(vs), len(hit)))
    for v in vs[:10]:
        print("  ", v["message"], json.dumps(v.get("context", {}))[:300])
    if hit:
        print("VIOLATION property=%s replay=%s" % (prop, path))
        return 1
    return 0


def main():
    ap = argparse.ArgumentParser()
    ap.add_argument("prop")
    ap.add_argument("--tier", default=os.environ.get("VERIF_TIER", "quick"), choices=["quick", "thorough"])
    ap.add_argument("--replay")
    ap.add_argument("--only", help="run only obligations whose name contains this")
    ap.add_argument("--no-evidence", action="store_true")
    ap.add_argument("--stop-at-first", action="store_true",
                    help="tools only (seeded-change regression): skip the remaining obligations once a replayed violation exists")
    a = ap.parse_args()
    prop = a.prop
    seed = int(os.environ.get("VERIF_SEED", "0") or 0)
    if a.replay:
        sys.exit(do_replay(prop, a.replay))
    t0 = time.time()
    from obligations import obligations, PROPERTY_NOTES

    obs = obligations(prop, a.tier)
    if a.only:
        obs = [o for o in obs if a.only in o["name"]]
    if not obs:
        print("no obligations registered for %s" % prop)
        sys.exit(2)
    st = selftest.run()
    if not st["ok"]:
        print("INCONCLUSIVE engine self-test failed: %s" % st)
        sys.exit(2)
    import jade

    repo = os.environ.get("VERIF_REPO", "/repo")
    if not os.path.abspath(jade.__file__).startswith(os.path.abspath(repo) + os.sep):
        print("INCONCLUSIVE jade imported from %s, expected %s" % (jade.__file__, repo))
        sys.exit(2)
    print("code under test: %s" % os.path.dirname(jade.__file__))
    known = load_known()
    results, new_violations, known_hits, inconclusive = [], [], [], []
    for ob in obs:
        print("[%s] %s %s ..." % (prop, ob["name"], json.dumps(ob["bounds"])[:200]), flush=True)
        res = run_one(ob, a.tier, seed)
        s = res.get("stats", {})
        print("    paths=%s reached=%s queries=%s solver=%.1fs wall=%.1fs exhausted=%s violations=%d" % (
            s.get("paths"), s.get("reached"), s.get("queries"), s.get("solver_s", 0.0), res.get("wall_s", 0.0),
            res["exhausted"], len(res["violations"])), flush=True)
        mine = [v for v in res["violations"] if _tagged(v["message"], prop)]
        other = sorted({v["message"] for v in res["violations"] if not _tagged(v["message"], prop)})
        res["other_property_violations"] = other[:10]
        for o in other[:5]:
            print("    (violation of another property seen by this obligation: %s)" % o)
        if res["inconclusive"]:
            for m in res["inconclusive"][:3]:
                print("    INCONCLUSIVE: %s" % str(m)[:1500])
            inconclusive.append(ob["name"])
        # one representative per distinct message
        seen = {}
        for v in mine:
            seen.setdefault(v["message"], v)
        res["violations_of_property"] = len(mine)
        for msg, v in seen.items():
            k = match_known(known, prop, ob["name"], v)
            # replay natively, without the solver
            rep = None
            if ob.get("kind", "jsym") == "jsym":
                try:
                    status, vs = runner.replay(tuple(ob["spec"]), v["assignment"])
                    rep = any(x["message"] == msg for x in vs)
                except Exception as e:
                    status, rep = "error %s" % e, False
            else:
                rep = v.get("replayed", False)
            if not rep:
                print("    counterexample for [%s] does NOT reproduce in native replay -> harness error" % msg)
                inconclusive.append(ob["name"] + ":replay")
                continue
            if k:
                known_hits.append((k, v))
                continue
            os.makedirs(os.path.join(HERE, "replays"), exist_ok=True)
            h = hashlib.sha1((ob["name"] + msg + json.dumps(v["assignment"], sort_keys=True)).encode()).hexdigest()[:10]
            rp = os.path.join(HERE, "replays", "%s-%s.json" % (prop, h))
            json.dump(dict(property=prop, obligation=ob["name"], kind=ob.get("kind", "jsym"), spec=list(ob["spec"]),
                           replay=ob.get("replay"), message=msg, assignment=v["assignment"], context=v.get("context"),
                           extra=v.get("extra")), open(rp, "w"), indent=1, default=str)
            new_violations.append((rp, msg, v))
        res.pop("violations", None)
        results.append(res)
        if a.stop_at_first and new_violations:
            break
    wall = time.time() - t0
    if not a.no_evidence:
        write_evidence(prop, a.tier, seed, results, wall, len(new_violations), known_hits, inconclusive,
                       PROPERTY_NOTES.get(prop, {}), st)
    for k, v in known_hits:
        print("KNOWN-FINDING: property=%s %s" % (prop, k["what"]))
    for rp, msg, v in new_violations:
        print("    %s  assignment=%s context=%s" % (msg, json.dumps(v["assignment"])[:600], json.dumps(v.get("context"))[:300]))
        print("VIOLATION property=%s replay=%s" % (prop, rp))
    if new_violations:
        sys.exit(1)
    if inconclusive:
        print("INCONCLUSIVE property=%s obligations=%s" % (prop, sorted(set(inconclusive))))
        sys.exit(2)
    print("OK property=%s tier=%s obligations=%d wall=%.1fs" % (prop, a.tier, len(results), wall))
    sys.exit(0)


def write_evidence(prop, tier, seed, results, wall, nviol, known_hits, inconclusive, notes, st):
    tot = {}
    for r in results:
        for k, v in (r.get("stats") or {}).items():
            if isinstance(v, (int, float)):
                tot[k] = tot.get(k, 0) + v
    functions = sorted({f for r in results for f in r.get("functions", [])})
    samples = []
    for r in results:
        for smp in (r.get("samples") or [])[:2]:
            samples.append(dict(obligation=r["name"], assignment=smp))
    if not samples:
        samples = [dict(obligation=r["name"], bounds=r["bounds"]) for r in results]
    discharged = sum(1 for r in results if r["exhausted"] and not r.get("violations_of_property"))
    ev = dict(
        property_id=prop, tier=tier, seed=seed, level="other", wall_s=round(wall, 2), violations=nviol,
        coverage=dict(
            explanation=(
                "Bounded solver-based symbolic execution of the real code in /repo (imported afresh by this run). "
                "Each obligation is a harness around real JADE functions whose inputs/environment answers are z3 "
                "variables; every branch on them is decided by z3 (both sides queried under the path condition), "
                "the feasible-path tree is explored depth-first to exhaustion within the stated bounds, and each "
                "assertion is discharged by an unsat answer for (path condition AND NOT assertion). 'discharged' "
                "counts obligations whose tree was exhausted with every assertion proved and whose reachability twin "
                "(paths reaching the final assertion point > 0) succeeded. Nothing is claimed outside the bounds. "
                + notes.get("explanation", "")),
            obligations=len(results), discharged=discharged,
            evaluations=int(tot.get("paths", 0)),
            distinct_nontrivial=int(tot.get("reached", 0)),
            rule="one evaluation = one feasible path of a harness (a disjoint path condition, i.e. a distinct "
                 "equivalence class of inputs); non-trivial = the path ran the real code to the final assertion "
                 "point (infeasible-assumption and cut paths excluded)",
            exhaustive=all(r["exhausted"] for r in results),
            samples=samples[:8],
            queries=int(tot.get("queries", 0)), sat=int(tot.get("sat", 0)), unsat=int(tot.get("unsat", 0)),
            unknown=int(tot.get("unknown", 0)), solver_s=round(tot.get("solver_s", 0.0), 2),
            decisions=int(tot.get("decisions", 0)), concretisations=int(tot.get("concretisations", 0)),
            assertions_evaluated=int(tot.get("checks", 0)), symbolic_assertions=int(tot.get("sym_checks", 0)),
            functions_encoded=functions,
            engine_selftest=st,
            per_obligation=[dict(name=r["name"], spec=r.get("spec"), bounds=r["bounds"], exhausted=r["exhausted"],
                                 stats=r.get("stats"), wall_s=r.get("wall_s"), shards=r.get("shards"),
                                 cvc5=r.get("cvc5"), notes=r.get("notes"), inconclusive=r.get("inconclusive"),
                                 violations_of_property=r.get("violations_of_property", 0),
                                 other_property_violations=r.get("other_property_violations"),
                                 functions=r.get("functions"), stubs=r.get("stubs")) for r in results],
            known_findings=[k["what"] for k, _ in known_hits],
            inconclusive=sorted(set(inconclusive)),
            outside_the_claim=notes.get("outside", []),
        ),
        assumptions=notes.get("assumptions", []) + [
            "z3 4.x/5.x answers are correct (sampled queries are re-decided by the cvc5 binary in the thorough tier)",
            "CPython executes the real code deterministically under PYTHONHASHSEED=0 (replay-based DFS checks "
            "every replayed decision against a hash of its condition)",
        ],
    )
    os.makedirs(os.path.join(HERE, "evidence"), exist_ok=True)
    with open(os.path.join(HERE, "evidence", prop + ".json"), "w") as f:
        json.dump(ev, f, indent=1, default=str)
    if tier == "thorough":  # kept next to the per-change evidence, which the next quick run overwrites
        os.makedirs(os.path.join(HERE, "evidence", "thorough"), exist_ok=True)
        with open(os.path.join(HERE, "evidence", "thorough", prop + ".json"), "w") as f:
            json.dump(ev, f, indent=1, default=str)


if __name__ == "__main__":
    main()
