"""K-collect: submitter-level collection and failure cancellation.  Real
HpcSubmitter._update_completed_jobs/_cancel_job on a real Cluster object with every
invariant-satisfying pre-state; the results collected in this round (which submitted jobs,
finished or canceled on their node, exit code) are solver variables.  Serves C02 C04 C09."""
import os

from jsym import sym_or
from .common import bootstrap, make_config, names, scratch_root, slurm_group


def k_collect(N=3):
    bootstrap()
    import jade.hpc.hpc_submitter as hs
    from jade.jobs.cluster import Cluster
    from jade.models import ClusterConfig, Job, JobState, JobStatus
    from jade.models.submission_group import SubmissionGroup
    from jade.result import Result

    out = os.path.join(scratch_root(), "kcollect")
    os.makedirs(out, exist_ok=True)
    W = {}

    class _Agg:
        def __init__(self):
            self.calls = 0

        def process_results(self):
            self.calls += 1
            return list(W["new"]) if self.calls == 1 else []  # node files are consumed by the first collection

        def append_result(self, r):
            W["appended"].append(r)

    from jade.jobs.results_aggregator import ResultsAggregator  # patched on the class: independent of import style

    ResultsAggregator.load = classmethod(lambda cls, output: W["agg"])

    def harness(ex):
        nm = names(N)
        st = [ex.choice("st%d" % i, 3) for i in range(N)]  # 0 not_submitted 1 submitted 2 done
        flags = [ex.flag("cf%d" % i) for i in range(N)]
        blk = []
        for i in range(N):
            b = set()
            for j in range(N):
                if i != j and st[i] == 0 and st[j] != 2 and ex.flag("b%d_%d" % (i, j)):
                    b.add(nm[j])
            blk.append(b)
        new, rc, kind = [], {}, {}
        for i in range(N):
            if st[i] == 1 and ex.flag("result%d" % i):
                canceled_on_node = ex.flag("node_canceled%d" % i)
                rc[nm[i]] = ex.int("rc%d" % i, -255, 255)
                if canceled_on_node:
                    ex.assume(rc[nm[i]] != 0)  # AsyncCliCommand.cancel records return code 1
                kind[nm[i]] = "canceled" if canceled_on_node else "finished"
                new.append(Result(nm[i], rc[nm[i]], kind[nm[i]], 1.0, 10.0, "77"))
        W.update(new=new, appended=[], agg=_Agg())
        group = SubmissionGroup(**slurm_group("default"))
        config = make_config([dict(name=nm[i], blocked_by=set(blk[i]), cancel_on_blocking_job_failure=flags[i]) for i in range(N)],
                             [slurm_group("default")])
        jstate = {0: JobState.NOT_SUBMITTED, 1: JobState.SUBMITTED, 2: JobState.DONE}
        jobs = [Job(name=nm[i], blocked_by=set(blk[i]), cancel_on_blocking_job_failure=flags[i], state=jstate[st[i]]) for i in range(N)]
        cc = ClusterConfig(path=out, num_jobs=N, submitter="h", submission_groups=[group], version=1,
                           submitted_jobs=sum(1 for s in st if s), completed_jobs=sum(1 for s in st if s == 2))
        cluster = Cluster(cc, job_status=JobStatus(jobs=jobs, hpc_job_ids=[], batch_index=5, version=1))
        sub = hs.HpcSubmitter(config, os.path.join(out, "config.json"), cluster, out)
        try:
            newly, canceled = sub._update_completed_jobs()
        except Exception as e:
            ex.check(False, "C02/C04: result collection raised", error="%s: %s" % (type(e).__name__, str(e)[:150]))
            return
        # ---- reference fix-point over the outcomes of this round
        bad = {n for n in rc if ex.value(rc[n] != 0)}
        want_cancel = set()
        changed = True
        while changed:
            changed = False
            for i in range(N):
                if st[i] == 0 and flags[i] and nm[i] not in want_cancel and blk[i] & (bad | want_cancel):
                    want_cancel.add(nm[i])
                    changed = True
        got_cancel = {j.name for j in canceled}
        ex.check(got_cancel == want_cancel, "C04: submitter cancels other jobs than the flagged dependents of failed or canceled jobs",
                 got=sorted(got_cancel), want=sorted(want_cancel))
        ex.check(len(canceled) == len(got_cancel), "C03/C04: a job was canceled twice in one round (two result entries for one job)")
        ex.check(set(newly) == set(rc) | want_cancel, "C02/C09: newly completed names are not exactly the collected plus the canceled jobs",
                 got=sorted(newly), want=sorted(set(rc) | want_cancel))
        after = {j.name: j for j in cluster.job_status.jobs}
        for i in range(N):
            n = nm[i]
            if n in want_cancel:
                ex.check(after[n].state == JobState.DONE and not after[n].blocked_by, "C04: canceled job not marked done with no blockers", job=n)
            elif st[i] == 0:
                ex.check(after[n].state == JobState.NOT_SUBMITTED, "C09: state of an unsubmitted job changed by result collection", job=n)
                ex.check(after[n].blocked_by == blk[i] - (set(rc) | want_cancel),
                         "C02: remaining blockers are not the old ones minus the jobs whose outcome was recorded in this round", job=n,
                         got=sorted(after[n].blocked_by), want=sorted(blk[i] - (set(rc) | want_cancel)))
        recs = {r.name: r for r in W["appended"]}
        ex.check(set(recs) == want_cancel and len(W["appended"]) == len(recs), "C03/C04: canceled results written are not exactly the canceled jobs",
                 got=sorted(recs))
        for r in W["appended"]:
            ex.check(r.status == "canceled" and r.return_code != 0, "C04: canceled record malformed", job=r.name)
        ex.reached()

    return harness
