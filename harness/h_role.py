"""H-role (C10): every CLI command that may act as submitter is run while ANOTHER process holds the
submitter role, on the same or another host, on an incomplete or a complete submission: the
holder keeps the role, nothing is changed, nothing is wedged."""
import json
import os

from .common import names, slurm_group
from .h_common import cluster_status, enabled_events, fire, setup_world, write_config

COMMANDS = [["jade", "try-submit-jobs", "{out}"], ["jade", "cancel-jobs", "{out}"], ["jade", "cancel-jobs", "{out}", "--no-complete"],
            ["jade", "resubmit-jobs", "{out}"], ["jade", "resubmit-jobs", "{out}", "--successful"],
            ["jade", "show-status", "-o", "{out}", "-n"], ["jade", "show-status", "-o", "{out}", "-j", "-n"]]


def h_role():
    def harness(ex):
        from world.world import Hang

        w = setup_world(ex)
        try:
            _run(ex, w)
        except Hang as e:
            ex.check(False, "C10: a JADE process did not terminate", what=str(e)[:200], fatal=True)
        finally:
            w.close()

    def _run(ex, w):
        from jade.jobs.cluster import Cluster

        nm = names(2)
        jobs = [dict(name=n, command="job " + n) for n in nm]
        cfg = write_config(w, jobs, [slurm_group("default", per_node_batch_size=1, max_nodes=1)])
        out = os.path.join(w.root, "out")
        p = w.user(["jade", "submit-jobs", cfg, "-o", out])
        ex.check(p.rc == 0, "C10: submit-jobs failed", err="".join(p.err)[-300:])
        complete = ex.flag("complete")
        if complete:
            for step in range(40):
                evs = enabled_events(w)
                if not evs:
                    c = cluster_status(out)
                    if c is not None and c.is_complete():
                        break
                    w.user(["jade", "try-submit-jobs", out])
                    continue
                fire(w, evs[0], lambda n: ex.choice("rc_" + n, 2))
            c = cluster_status(out)
            ex.check(c is not None and c.is_complete(), "C10: scenario did not complete")
        # another process takes the role (as a submitter round or a resubmission in progress would)
        holder_host = ["node77", "login1"][ex.choice("holder_on_same_host", 2)]
        prev = w.cur.host
        w.cur.host = holder_host
        holder, promoted = Cluster.deserialize(out, try_promote_to_submitter=True, deserialize_jobs=True)
        w.cur.host = prev
        ex.check(promoted, "C10: promotion of the only candidate refused")
        if not promoted:
            return

        def snapshot():
            cc = json.load(open(os.path.join(out, "cluster_config.json")))
            js = json.load(open(os.path.join(out, "job_status.json")))
            return (cc["submitter"], {k: v for k, v in cc.items() if k not in ("version", "submitter")},
                    {k: v for k, v in js.items() if k != "version"}, sorted(w.result_names(out)))

        before = snapshot()
        nsb, nsc = len(w.events("sbatch")), len(w.events("scancel"))
        cmd = [a.format(out=out) for a in COMMANDS[ex.choice("command", len(COMMANDS))]]
        r = w.user(cmd)
        # (a refusal may take the form of an uncaught exception, e.g. resubmit-jobs' `assert promoted`: the property only
        # demands that the role, the state and the HPC are left alone and that nothing is wedged)
        if [e for e in w.events("crash") if e["argv"][:2] == cmd[:2]]:
            ex.note("refusals_by_exception")
        ex.check(not os.path.exists(os.path.join(out, "cluster_config.json.lock")),
                 "C10: command left the cluster lock behind while another process holds the submitter role", cmd=cmd[1])
        if os.path.exists(os.path.join(out, "cluster_config.json.lock")):
            return
        after = snapshot()
        ex.check(after[0] == before[0] == holder_host, "C10: a process that was not promoted took or cleared the submitter role", cmd=cmd[1],
                 before=before[0], after=after[0])
        ex.check(after[1:] == before[1:], "C10: a process that was not promoted changed the submission's state", cmd=cmd[1])
        ex.check(len(w.events("sbatch")) == nsb and len(w.events("scancel")) == nsc,
                 "C10: a process that was not promoted acted on the HPC", cmd=cmd[1])
        # the holder can still work with its copy: its state was not overwritten
        try:
            holder.demote_from_submitter()
        except Exception as e:
            ex.check(False, "C10: the role holder's next write was rejected although nobody else may write", cmd=cmd[1],
                     error="%s: %s" % (type(e).__name__, str(e)[:100]))
        ex.reached()

    return harness
