"""H-results (C08): real ResultsAggregator (append / process_results / move_results /
list_results) on real files under every interleaving, at lock-operation and file-operation
granularity, of appending runners and collecting submitter rounds."""
import os

from .h_common import setup_world


def h_results(runners=2, appends=2, rounds=2, same_batch=True, file_ops=True, max_steps=400):
    def harness(ex):
        from world.world import Hang

        w = setup_world(ex, fine=True)
        w.track_files = file_ops
        try:
            _run(ex, w)
        except Hang as e:
            ex.check(False, "C08: an actor did not terminate", what=str(e)[:200], fatal=True)
        finally:
            w.close()

    def _run(ex, w):
        from jade.jobs.results_aggregator import ResultsAggregator
        from jade.result import Result

        out = os.path.join(w.root, "out")
        os.makedirs(os.path.join(out, "results"))
        ResultsAggregator.create(out)
        nr = 1 + ex.choice("runners", runners)
        first = [1, 12][ex.choice("first_batch_id", 2)]  # one- and two-digit batch ids
        batch_of = [first] + [(first if same_batch and ex.flag("same_batch%d" % k) else first + 8 * k) for k in range(1, nr)]
        napp = [1 + ex.choice("appends%d" % k, appends) for k in range(nr)]
        nrounds = 1 + ex.choice("rounds", rounds)
        appended, collected, errors = [], [], []
        done_append = []

        def yield_point(w_, kind, detail):
            if w_._thread_proc() is not None and kind in ("lock_acquire", "lock_release", "write_open", "remove", "rename"):
                w_.block(("yield", kind))

        w.effect_hook = yield_point

        def runner(k):
            def body():
                for i in range(napp[k]):
                    r = Result("r%dj%d" % (k, i), 10 * k + i, "finished", 1.5, 1000.0 + i, str(500 + k))
                    appended.append(r.name)
                    ResultsAggregator.append(out, r, batch_id=batch_of[k])
                    done_append.append(r.name)
                return 0
            return body

        def collector():
            for _ in range(nrounds):
                got = ResultsAggregator.load(out).process_results()
                collected.append([r.name for r in got])
            return 0

        procs = [w.spawn("runner%d" % k, "node%d" % k, w.base_env, runner(k)) for k in range(nr)]
        procs.append(w.spawn("collector", "login1", w.base_env, collector))
        for step in range(max_steps):
            live = [p for p in procs if not p.done]
            if not live:
                break
            # an actor waiting for a lock is runnable only when the marker is gone
            runnable = []
            for p in live:
                b = p.blocked
                if b and b[0] == "lock" and os.path.exists(b[1]):
                    continue
                runnable.append(p)
            if not runnable:
                ex.check(False, "C08: deadlock between result writers and the collector", blocked=[str(p.blocked) for p in live])
                return
            p = runnable[ex.choice("t%d" % step, len(runnable))]
            w.resume_proc(p)
        else:
            ex.check(False, "C08: actors did not finish within the step bound")
            return
        for p in procs:
            if p.rc != 0:
                ex.check(False, "C08: an actor crashed", actor=p.name, err="".join(p.err)[-300:])
        w.effect_hook = None
        w.track_files = False
        # ---- oracles
        flat = [n for rnd in collected for n in rnd]
        ex.check(len(flat) == len(set(flat)), "C08: a result was reported as newly completed to more than one round", collected=collected)
        in_node_files = []
        rd = os.path.join(out, "results")
        for f in sorted(os.listdir(rd)):
            if f.endswith(".csv"):
                lines = open(os.path.join(rd, f)).read().split("\n")
                ex.check(lines[0] == "name,return_code,status,exec_time_s,completion_time,hpc_job_id",
                         "C08: node result file lacks its header (rows would be misparsed)", file=f, first=lines[0][:60])
                in_node_files += [l.split(",")[0] for l in lines[1:] if l.strip()]
        ex.check(sorted(flat + in_node_files) == sorted(appended), "C08: result lost or duplicated between node files and collection",
                 collected=collected, pending=in_node_files, appended=appended)
        final = ResultsAggregator.load(out).process_results()
        flat += [r.name for r in final]
        ex.check(sorted(flat) == sorted(appended), "C08: not every result was reported as newly completed exactly once",
                 reported=sorted(flat), appended=sorted(appended))
        try:
            rows = ResultsAggregator.list_results(out)
        except Exception as e:
            ex.check(False, "C08: consolidated results file does not parse", error="%s: %s" % (type(e).__name__, str(e)[:200]))
            return
        ex.check(sorted(r.name for r in rows) == sorted(appended), "C08: consolidated results are not exactly the results written",
                 rows=sorted(r.name for r in rows), appended=sorted(appended))
        for r in rows:
            k, i = int(r.name[1]), int(r.name.split("j")[1])
            ex.check((r.return_code, r.status, r.exec_time_s, r.completion_time, r.hpc_job_id) ==
                     (10 * k + i, "finished", 1.5, 1000.0 + i, str(500 + k)), "C08: row truncated or attributed to another job", row=tuple(r))
        head = open(os.path.join(out, "processed_results.csv")).read().split("\n")
        ex.check(head[0].startswith("name,") and sum(1 for l in head if l.startswith("name,")) == 1,
                 "C08: consolidated file does not have exactly one header")
        ex.reached()

    return harness
