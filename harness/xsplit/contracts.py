"""CrossHair contracts (E3): for every Unicode string of the stated length, POSIX splitting as
performed by the standard library function JADE calls (shlex.split(cmd, posix=True), see
jade/jobs/async_cli_command.py AsyncCliCommand.run and jade/utils/run_command.py) equals the
reference splitter used as oracle by K-launch, including which inputs raise ValueError."""
import shlex
import sys
from typing import List, Optional

sys.path.insert(0, __file__.rsplit("/harness/", 1)[0])
from oracles import ref_split  # noqa: E402


def _both(s: str):
    try:
        a: Optional[List[str]] = shlex.split(s, posix=True)
    except ValueError:
        a = None
    try:
        b: Optional[List[str]] = ref_split(s)
    except ValueError:
        b = None
    return a, b


def split_len0(s: str) -> bool:
    """
    pre: len(s) == 0
    post: _
    """
    a, b = _both(s)
    return a == b


def split_len1(s: str) -> bool:
    """
    pre: len(s) == 1
    post: _
    """
    a, b = _both(s)
    return a == b


def split_len2(s: str) -> bool:
    """
    pre: len(s) == 2
    post: _
    """
    a, b = _both(s)
    return a == b


def split_len3(s: str) -> bool:
    """
    pre: len(s) == 3
    post: _
    """
    a, b = _both(s)
    return a == b


def twin_len2(s: str) -> bool:
    """
    pre: len(s) == 2
    post: _
    """
    a, b = _both(s)
    return a != b or a is None  # reachability twin: must be refuted


# ---- the same through the real JADE launch path -------------------------------------------------
import os  # noqa: E402
import subprocess  # noqa: E402
import tempfile  # noqa: E402

_OUT = tempfile.mkdtemp(prefix="xsplit-", dir="/dev/shm" if os.path.isdir("/dev/shm") else None)
os.makedirs(os.path.join(_OUT, "job-stdio"), exist_ok=True)
import atexit  # noqa: E402
import shutil  # noqa: E402

atexit.register(shutil.rmtree, _OUT, True)
os.environ.setdefault("JADE_REGISTRY", os.path.join(_OUT, "registry.json"))
os.environ.setdefault("MPLCONFIGDIR", os.path.join(_OUT, "mpl"))
import logging  # noqa: E402

logging.disable(logging.CRITICAL)
from jade.extensions.generic_command.generic_command_execution import GenericCommandExecution  # noqa: E402
from jade.jobs.async_cli_command import AsyncCliCommand  # noqa: E402


class _Job:
    name = "j0"
    cancel_on_blocking_job_failure = False

    def __init__(self, command, ajn, aod):
        self.command, self.append_job_name, self.append_output_dir = command, ajn, aod


class _P:
    pid = 1
    returncode = None


def _jade_argv(s: str, ajn: bool, aod: bool):
    """argv handed to Popen by the real GenericCommandExecution.generate_command + AsyncCliCommand.run."""
    job = _Job("x" + s, ajn, aod)
    cli = GenericCommandExecution.generate_command(job, os.path.join(_OUT, "job-outputs"), "cfg.json")
    cmd = AsyncCliCommand(job, cli, _OUT, 1, True, "9")
    seen = []
    real = subprocess.Popen
    fake = lambda argv, *a, **kw: (seen.append(list(argv)), _P())[1]  # noqa: E731
    subprocess.Popen = fake
    # also names bound with `from subprocess import Popen` in JADE's modules (import style is not part of the property)
    rebound = [(m, k) for n, m in list(sys.modules.items()) if n.startswith("jade") and m is not None
               for k, v in list(vars(m).items()) if v is real]
    for m, k in rebound:
        setattr(m, k, fake)
    try:
        cmd.run()
    except ValueError:
        return None
    finally:
        subprocess.Popen = real
        for m, k in rebound:
            setattr(m, k, real)
        for fp in (cmd._stdout_fp, cmd._stderr_fp):
            if fp is not None:
                fp.close()
        cmd._is_pending = False
    return seen[0]


def _jade_ok(s: str, ajn: bool, aod: bool) -> bool:
    got = _jade_argv(s, ajn, aod)
    try:
        want: Optional[List[str]] = ref_split("x" + s)
    except ValueError:
        want = None
    if want is None:
        return True if (ajn or aod) else got is None
    extras = (["--jade-job-name=j0"] if ajn else []) + (["--jade-runtime-output=" + _OUT] if aod else [])
    return got == want + extras


def jade_len1_ff(s: str) -> bool:
    """
    pre: len(s) <= 1
    post: _
    """
    return _jade_ok(s, False, False)


def jade_len1_tf(s: str) -> bool:
    """
    pre: len(s) <= 1
    post: _
    """
    return _jade_ok(s, True, False)


def jade_len1_ft(s: str) -> bool:
    """
    pre: len(s) <= 1
    post: _
    """
    return _jade_ok(s, False, True)


def jade_len1_tt(s: str) -> bool:
    """
    pre: len(s) <= 1
    post: _
    """
    return _jade_ok(s, True, True)


def jade_twin(s: str) -> bool:
    """
    pre: len(s) <= 1
    post: _
    """
    return _jade_argv(s, False, False) != ["x"]  # reachability twin: must be refuted (s = '' gives ['x'])
