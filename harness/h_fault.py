"""H-fault (C11): one fault - kill -9 or an injected error - at a solver-chosen effect point of
a submitter round (login node or compute node), followed by further submitter attempts."""
import errno
import json
import os

from .common import names, slurm_group
from .h_common import SHAPES, cluster_status, enabled_events, fire, setup_world, write_config

ROUND_EFFECTS = ("sbatch", "squeue", "lock_acquire", "lock_release", "write_open", "remove", "rename", "exec")


def h_fault(shapes=("chain3",), bss=(1,), maxns=(None,), kinds=("kill", "kill_node", "edquot", "lock_timeout", "squeue", "sbatch"),
            lock_modes=("M1", "M2"), later_attempts=2, max_steps=80, max_recoveries=None):
    def harness(ex):
        from world.world import Hang

        mode = lock_modes[ex.choice("lock_mode", len(lock_modes))]
        w = setup_world(ex, lock_mode=mode)
        w.track_files = True
        try:
            _run(ex, w)
        except Hang as e:
            ex.check(False, "C11: a JADE process did not terminate after the fault", what=str(e)[:200], fatal=True)
        finally:
            w.close()

    def _run(ex, w):
        import filelock

        shape = shapes[ex.choice("shape", len(shapes))]
        N, blockers = SHAPES[shape]
        nm = names(N)
        bs = bss[ex.choice("bs", len(bss))]
        maxn = maxns[ex.choice("maxn", len(maxns))]
        kind = kinds[ex.choice("fault", len(kinds))]
        jobs = [dict(name=nm[i], command="job " + nm[i], blocked_by={nm[b] for b in blockers.get(i, [])}) for i in range(N)]
        cfg = write_config(w, jobs, [slurm_group("default", per_node_batch_size=bs, max_nodes=maxn)])
        out = os.path.join(w.root, "out")
        st = dict(injected=False, idx=0, rows_before=None, proc=None, seq=None, squeue_round=None, sb_script=None)

        def in_round(w_):
            return w_.cur is not None and "submit-jobs" in w_.cur.name

        def hook(w_, k, detail):
            if st["injected"] or not in_round(w_) or k not in ROUND_EFFECTS:
                return
            if kind in ("kill", "kill_node"):
                if kind == "kill_node" and w_._thread_proc() is None:
                    return  # only compute-node rounds can lose their whole node
                fire_ = ex.flag("fault_at_%d" % st["idx"])
            elif kind == "edquot":
                if k != "write_open":
                    return
                fire_ = ex.flag("fault_at_%d" % st["idx"])
            elif kind == "lock_timeout":
                if k != "lock_acquire":
                    return
                fire_ = ex.flag("fault_at_%d" % st["idx"])
            else:
                return
            st["idx"] += 1
            if not fire_:
                return
            st.update(injected=True, rows_before=sorted(w_.result_names(out)), proc=w_.cur.name, seq=w_.seq, effect=k,
                      detail=str(detail)[:120])
            if kind == "kill":
                w_.kill_here(whole_thread=False)
            elif kind == "kill_node":
                w_.kill_here(whole_thread=True)
            elif kind == "edquot":
                raise OSError(errno.EDQUOT, "Disk quota exceeded", detail.get("path"))
            elif kind == "lock_timeout":
                raise filelock.Timeout(detail.get("path"))

        w.effect_hook = hook
        if kind == "squeue":
            def squeue_policy(w_):  # every retry of the status query fails during one solver-chosen round
                r = w_.cur.pid  # the process of this round (names repeat, pids do not)
                if st["squeue_round"] is None and not st["injected"] and in_round(w_):
                    if ex.flag("squeue_fails_in_round_%d" % st["idx"]):
                        st.update(injected=True, squeue_round=r, rows_before=sorted(w_.result_names(out)), proc=w_.cur.name, seq=w_.seq)
                    st["idx"] += 1
                return st["squeue_round"] == r and st["squeue_round"] is not None
            w.squeue_policy = squeue_policy
        if kind == "sbatch":
            def sbatch_policy(w_, script):  # every retry of one solver-chosen submission fails
                if st["sb_script"] is None and not st["injected"]:
                    if ex.flag("sbatch_fails_%d" % st["idx"]):
                        st.update(injected=True, sb_script=script, rows_before=sorted(w_.result_names(out)), proc=w_.cur.name, seq=w_.seq)
                    st["idx"] += 1
                return st["sb_script"] == script
            w.sbatch_policy = sbatch_policy

        p = w.user(["jade", "submit-jobs", cfg, "-o", out])
        attempts_left = later_attempts
        recoveries = 0
        for step in range(max_steps):
            evs = enabled_events(w)
            if st["injected"] and attempts_left > 0 and ex.flag("user_attempt_%d" % step):
                attempts_left -= 1
                w.now += 10  # the user comes back later
                w.user(["jade", "try-submit-jobs", out], host=["login1", "login2"][ex.choice("attempt_host_%d" % step, 2)])
                continue
            if not evs:
                c = cluster_status(out) if os.path.exists(os.path.join(out, "cluster_config.json")) else None
                if c is not None and c.is_complete():
                    break
                recoveries += 1
                # with max_nodes=1 every batch needs its own recovery round; one more may be lost to the fault itself
                if recoveries > (max_recoveries if max_recoveries is not None else N + 4):
                    break
                w.now += 10
                w.user(["jade", "try-submit-jobs", out])
                continue
            fire(w, evs[0], lambda n: 0)  # fixed schedule: the quantifier of this property is the fault, not the schedule
        # ---- oracles over the whole faulty history
        w.effect_hook = None
        launches = w.events("launch")
        per_job = {}
        for l in launches:
            per_job[l["job"]] = per_job.get(l["job"], 0) + 1
        for n, c_ in per_job.items():
            ex.check(c_ <= 1, "C11: job started twice in a history with a submitter fault", job=n, fault=kind, at=st.get("effect"),
                     proc=st["proc"])
        sb = []
        for s in w.events("sbatch"):
            if sb and sb[-1]["script"] == s["script"] and not sb[-1]["ok"]:
                sb[-1] = s
            else:
                sb.append(s)
        placed = {}
        for s in sb:
            if not s["ok"]:
                continue
            for n in s["jobs"] or []:
                ex.check(n not in placed, "C11: job handed to the HPC twice in a history with a submitter fault", job=n, fault=kind,
                         at=st.get("effect"), proc=st["proc"], detail=st.get("detail"))
                placed[n] = s["script"]
        exits = {e["job"]: e["seq"] for e in w.events("exit")}
        for l in launches:
            i = nm.index(l["job"])
            for b in blockers.get(i, []):
                ex.check(nm[b] in exits and exits[nm[b]] < l["seq"], "C11: dependency order broken after a submitter fault",
                         job=l["job"], blocker=nm[b], fault=kind)

        def readable_rows():
            """Rows as JADE's own readers see them (consolidated file + node files)."""
            from pathlib import Path
            from jade.jobs.results_aggregator import ResultsAggregator

            rows = []
            try:
                if os.path.exists(os.path.join(out, "processed_results.csv")):
                    rows += [r.name for r in ResultsAggregator.load(out).get_results_unsafe()]
                rd = os.path.join(out, "results")
                for f in sorted(os.listdir(rd)) if os.path.isdir(rd) else []:
                    if f.endswith(".csv"):
                        rows += [r.name for r in ResultsAggregator.load_node_results_file(Path(rd) / f).get_results_unsafe()]
            except Exception as e:
                return None, "%s: %s" % (type(e).__name__, str(e)[:120])
            return rows, None

        if st["injected"]:
            rows_after, rerr = readable_rows()
            ex.check(rows_after is not None, "C11: result files no longer parse after a submitter fault", error=rerr, fault=kind,
                     at=st.get("effect"), proc=st["proc"], detail=st.get("detail"))
            rows_after = rows_after or []
            # results produced at any time stay on disk and readable: every job whose node recorded its exit
            for e in w.events("exit"):
                b = [l["batch"] for l in launches if l["job"] == e["job"]]
                node_alive = b and w.batches.get(b[0], {}).get("state") in ("COMPLETED", "RUNNING")
                if node_alive and w.batches[b[0]]["state"] == "COMPLETED":
                    ex.check(e["job"] in rows_after, "C11: result of a finished job is not readable after a submitter fault",
                             job=e["job"], fault=kind, at=st.get("effect"), proc=st["proc"], detail=st.get("detail"))
            for n in st["rows_before"]:
                ex.check(n in rows_after, "C11: a result produced before the fault is no longer on disk", job=n, fault=kind,
                         at=st.get("effect"), proc=st["proc"], detail=st.get("detail"))
            if kind == "squeue":
                # a transient failure of the status query: the submission still completes through the normal recovery
                c = cluster_status(out)
                ex.check(c is not None and c.is_complete(), "C11: submission did not recover after a transient status-query failure",
                         proc=st["proc"])
                if c is not None and c.is_complete():
                    data = json.load(open(os.path.join(out, "results.json")))
                    ex.check(sorted(r["name"] for r in data["results"]) == sorted(nm) and not data["missing_jobs"],
                             "C11: results incomplete after a transient status-query failure")
            # state consistency whenever it can be read
            c = cluster_status(out) if os.path.exists(os.path.join(out, "cluster_config.json")) else None
            if c is not None and kind not in ("kill", "kill_node", "edquot", "lock_timeout"):
                done = sum(1 for j in c.job_status.jobs if j.state.value == "done")
                sub = sum(1 for j in c.job_status.jobs if j.state.value != "not_submitted")
                ex.check(c.config.completed_jobs == done and c.config.submitted_jobs == sub,
                         "C11: counters inconsistent after a failed external command", fault=kind)
            ex.note("faults_injected")
        ex.reached()

    return harness
