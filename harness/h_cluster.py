"""C10: H-cluster (handles on several hosts performing solver-chosen operation sequences on a
real cluster directory) and K-version (version compare of Cluster._serialize/_serialize_jobs
with a symbolic in-memory version)."""
import os

from .common import bootstrap, make_config, names, set_raw, slurm_group
from .h_common import setup_world

FILES = ("cluster_config.json", "job_status.json", "config_version.txt", "job_status_version.txt")


def _bytes(out):
    return {f: open(os.path.join(out, f), "rb").read() for f in FILES}


OPS = ["load", "load+promote", "promote", "demote", "update", "mark_canceled", "complete_id", "reload_jobs", "mark_complete"]


def h_cluster(handles=3, steps=5, hosts=("login1", "node7")):
    def harness(ex):
        w = setup_world(ex)
        try:
            _run(ex, w)
        finally:
            w.close()

    def _run(ex, w):
        import filelock
        from jade.jobs.cluster import Cluster, ConfigVersionMismatch, JobStatusVersionMismatch

        out = os.path.join(w.root, "out")
        os.makedirs(out)
        config = make_config([dict(name=n) for n in names(2)], [slurm_group("default")])
        w.cur.host = "creator"
        creator = Cluster.create(out, config)
        creator.update_job_status([], [], [], set(), ["77", "78"], 1)
        creator.demote_from_submitter()
        nh = 1 + ex.choice("handles", handles)
        H = [dict(host=hosts[ex.choice("host%d" % k, len(hosts))] if k else hosts[0], c=None, role=False) for k in range(nh)]
        n_steps = 1 + ex.choice("steps", steps)
        for step in range(n_steps):
            k = ex.choice("who%d" % step, nh)
            h = H[k]
            avail = ["load", "load+promote"] if h["c"] is None else OPS
            op = avail[ex.choice("op%d" % step, len(avail))]
            if op == "demote" and not h["role"]:
                continue  # real callers only give up a role they obtained (try_submit_jobs, cancel_jobs, resubmit_jobs, run_jobs)
            w.cur.host = h["host"]
            before = _bytes(out)
            disk_cv = int(before["config_version.txt"])
            disk_jv = int(before["job_status_version.txt"])
            holders = [i for i, x in enumerate(H) if x["role"]]
            stale_c = h["c"] is not None and h["c"].config.version != disk_cv
            stale_j = h["c"] is not None and h["c"].job_status is not None and h["c"].job_status.version != disk_jv
            err, ret = None, None
            try:
                if op.startswith("load"):
                    c, promoted = Cluster.deserialize(out, try_promote_to_submitter=(op == "load+promote"), deserialize_jobs=True)
                    h["c"] = c
                    ret = promoted
                elif op == "promote":
                    ret = h["c"].promote_to_submitter()
                elif op == "demote":
                    h["c"].demote_from_submitter()
                elif op == "update":
                    h["c"].update_job_status([], [], [], set(), ["77", "78", "9%d" % step], 2 + step)
                elif op == "mark_canceled":
                    h["c"].mark_canceled()
                elif op == "complete_id":
                    if "77" not in h["c"].job_status.hpc_job_ids:
                        continue
                    h["c"].complete_hpc_job_id("77")
                elif op == "reload_jobs":
                    h["c"].deserialize_jobs()
                elif op == "mark_complete":
                    if h["c"].config.is_complete or not h["role"]:
                        continue  # only the submitter of the last round completes a submission, once (HpcSubmitter.run)
                    h["c"].mark_complete()
            except (ConfigVersionMismatch, JobStatusVersionMismatch) as e:
                err = e
            except filelock.Timeout as e:
                ex.check(False, "C10: cluster lock left behind after an operation that should have succeeded", op=op)
                return
            except AssertionError as e:
                ex.check(False, "C10: internal assertion failed during a legal operation sequence", op=op, error=str(e)[:100])
                return
            after = _bytes(out) if os.path.exists(os.path.join(out, "cluster_config.json")) else {}
            wrote_c = op in ("load+promote", "promote", "demote", "update", "mark_canceled")
            wrote_j = op in ("update", "complete_id")
            if op in ("load", "load+promote"):
                stale_c = stale_j = False  # a fresh copy is read under the lock
            if op in ("promote", "load+promote") and holders and ret is not False and err is None:
                ex.check(False, "C10: promotion succeeded while another process holds the submitter role", holders=holders, who=k)
            if op in ("promote", "load+promote") and ret is True:
                h["role"] = True
                ex.check(sum(1 for x in H if x["role"]) <= 1, "C10: two processes hold the submitter role at the same time",
                         holders=[i for i, x in enumerate(H) if x["role"]])
            if op in ("promote", "load+promote") and not holders and err is None and not stale_c:
                ex.check(ret is True, "C10: promotion refused although nobody holds the submitter role", who=k)
            if op == "demote" and err is None:
                h["role"] = False
            would_write_c = wrote_c and not (op in ("promote", "load+promote") and ret is False) and not (op == "mark_canceled" and
                                                                                                         h["c"].config.is_canceled and False)
            if (stale_c and would_write_c and not (op == "promote" and holders)) or (stale_j and wrote_j):
                ex.check(err is not None, "C10: a process holding an out-of-date copy of the cluster state wrote it", op=op,
                         stale_config=stale_c, stale_jobs=stale_j)
            if err is not None:
                ex.check(after == before, "C10: files changed although the write was rejected with a version mismatch", op=op,
                         changed=[f for f in FILES if before.get(f) != after.get(f)])
                ex.check(stale_c or stale_j, "C10: version mismatch raised for an up-to-date copy", op=op)
                # JADE deliberately leaves the lock behind after an exception under the lock; the history ends here
                ex.reached()
                return
        ex.reached()

    return harness


def k_version(vmax=5):
    bootstrap()
    from world import world

    world.install()
    from jade.jobs.cluster import Cluster, ConfigVersionMismatch, JobStatusVersionMismatch
    from .common import fresh_dir

    def harness(ex):
        out = fresh_dir("kver")
        config = make_config([dict(name=n) for n in names(2)], [slurm_group("default")])
        c = Cluster.create(out, config)
        disk_c = ex.choice("disk_config_version", vmax)
        disk_j = ex.choice("disk_job_version", vmax)
        open(os.path.join(out, "config_version.txt"), "w").write("%d\n" % disk_c)
        open(os.path.join(out, "job_status_version.txt"), "w").write("%d\n" % disk_j)
        mem_c = ex.choice("mem_config_version", vmax + 1)  # concrete: the version is part of the JSON text that is hashed and written
        mem_j = ex.choice("mem_job_version", vmax + 1)
        set_raw(c.config, version=mem_c)
        set_raw(c.job_status, version=mem_j)
        c.config.is_canceled = True  # a change to write
        c.job_status.batch_index = 9
        before = _bytes(out)
        for which, fn, exc, mem, disk in (("config", c._serialize, ConfigVersionMismatch, mem_c, disk_c),
                                          ("jobs", c._serialize_jobs, JobStatusVersionMismatch, mem_j, disk_j)):
            try:
                fn("verif")
                raised = False
            except exc:
                raised = True
            equal = ex.value(mem == disk)
            ex.check(raised == (not equal), "C10: write not rejected exactly when the in-memory version differs from the version on disk",
                     which=which, raised=raised)
            after = _bytes(out)
            names_ = ("cluster_config.json", "config_version.txt") if which == "config" else ("job_status.json", "job_status_version.txt")
            if raised:
                ex.check(all(after[f] == before[f] for f in FILES), "C10: files changed by a rejected write", which=which)
            else:
                ex.check(int(after[names_[1]]) == disk + 1, "C10: version on disk not incremented by an accepted write", which=which)
                ex.check(after[names_[0]] != before[names_[0]], "C10: accepted write did not reach the file", which=which)
            before = after
        ex.reached()

    return harness
