"""H-submit: whole submissions through the real CLI in the world model, from
`jade submit-jobs` to quiescence, schedule / exit codes / flags / (optionally) lost
batches chosen by the solver.  Serves C01-C07, C09, C12 (and C16 via hooks=True).
"""
import json
import os

from .common import names, slurm_group, local_group
from .h_common import (SHAPES, classify, cluster_status, enabled_events, fire, reference_outcome, setup_world,
                       write_config)


class StatusObserver:
    """C09: reads the status through the public API after every release of the cluster lock."""

    def __init__(self, ex, out, N):
        self.ex, self.out, self.N = ex, out, N
        self.prev = None
        self.complete_seen = 0
        self.reads = 0
        self.complete_seq = None
        self.canceled_seq = None

    def __call__(self, w, path):
        if not path.endswith("cluster_config.json.lock") or not os.path.exists(os.path.join(self.out, "job_status.json")):
            return
        if not os.path.exists(os.path.join(self.out, "cluster_config.json")):
            return
        ex = self.ex
        try:
            c = cluster_status(self.out)
            if c is None:
                return
        except Exception as e:
            ex.check(False, "C09: status unreadable while the cluster lock is free", error="%s: %s" % (type(e).__name__, str(e)[:200]))
            return
        self.reads += 1
        cfg, js = c.config, c.job_status
        states = {j.name: j.state.value for j in js.jobs}
        done = sum(1 for s in states.values() if s == "done")
        sub = sum(1 for s in states.values() if s in ("submitted", "done"))
        ex.check(cfg.completed_jobs <= cfg.submitted_jobs <= cfg.num_jobs, "C09: completed <= submitted <= total violated",
                 completed=cfg.completed_jobs, submitted=cfg.submitted_jobs)
        ex.check(cfg.completed_jobs == done, "C08/C09: completed counter != number of done jobs (a completion counted twice or not at all)", counter=cfg.completed_jobs, done=done)
        ex.check(cfg.submitted_jobs == sub, "C09: submitted counter != number of submitted or done jobs",
                 counter=cfg.submitted_jobs, recount=sub)
        rows = set(w.result_names(self.out))
        for j in js.jobs:
            if j.state.value == "done":
                ex.check(j.name in rows, "C09: done job without a recorded result", job=j.name)
            if j.state.value != "not_submitted":
                ex.check(not j.blocked_by, "C09: submitted job still has remaining blockers", job=j.name)
        cur = dict(cv=cfg.version, jv=js.version, completed=cfg.completed_jobs, submitted=cfg.submitted_jobs,
                   states=states, blocked={j.name: set(j.blocked_by) for j in js.jobs}, complete=cfg.is_complete,
                   cfg=cfg.json(), js=js.json())
        p = self.prev
        if p is not None:
            order = {"not_submitted": 0, "submitted": 1, "done": 2}
            ex.check(cur["cv"] >= p["cv"] and cur["jv"] >= p["jv"], "C09: version number decreased")
            if cur["cfg"] != p["cfg"]:
                ex.check(cur["cv"] > p["cv"], "C09: cluster config changed without a version increase")
            if cur["js"] != p["js"]:
                ex.check(cur["jv"] > p["jv"], "C09: job status changed without a version increase")
            ex.check(cur["completed"] >= p["completed"] and cur["submitted"] >= p["submitted"], "C09: counter decreased")
            for n, s in states.items():
                ex.check(order[s] >= order[p["states"][n]], "C09: job state moved backwards", job=n, was=p["states"][n], now=s)
                ex.check(cur["blocked"][n] <= p["blocked"][n], "C09: remaining-blockers set grew", job=n)
            ex.check(cur["complete"] or not p["complete"], "C09: complete submission became incomplete")
        if cfg.is_complete and (p is None or not p["complete"]):
            self.complete_seen += 1
            self.complete_seq = w.seq
            ex.check(os.path.exists(os.path.join(self.out, "results.json")),
                     "C05: completion flag set before the results summary was written")
            ex.check(done == cfg.num_jobs or True, "")
        if cfg.is_canceled and self.canceled_seq is None:
            self.canceled_seq = w.seq
        self.prev = cur


def h_submit(shapes=("chain3",), bss=(1, 2), maxns=(None, 1), tas=(True,), time_based=False, G=1, fails=True,
             cancel_flags=True, lost=False, local=False, procs=None, max_steps=60, max_recoveries=None, rcs=(0, 1),
             hooks=False, est_choices=(1, 5), wall="0:10:00", dry_run=False, hook_rcs=(0,), aliases=None, round_yields=False, user_round=False, double_recovery=False, cpus=4, append_flags=False, squeue_fault=False):
    def harness(ex):
        from world.world import Hang

        w = setup_world(ex, cpus=cpus)
        try:
            _run(ex, w)
        except Hang as e:
            ex.check(False, "C05: a JADE process did not terminate (no return within the CPU-time deadline)", what=str(e)[:200], fatal=True)
        finally:
            w.close()

    def _run(ex, w):
        shape = shapes[ex.choice("shape", len(shapes))]
        N, blockers = SHAPES[shape]
        nm = names(N)
        bs = bss[ex.choice("bs", len(bss))]
        maxn = maxns[ex.choice("maxn", len(maxns))]
        ta = tas[ex.choice("ta", len(tas))]
        flags = [bool(blockers.get(i)) and cancel_flags and ex.flag("cf%d" % i) for i in range(N)]
        grp_of = [ex.choice("g%d" % i, G) for i in range(N)]
        ests = [est_choices[ex.choice("est%d" % i, len(est_choices))] if time_based else None for i in range(N)]
        np_ = procs
        if time_based and np_ is None:
            np_ = 1
        groups = []
        for g in range(G):
            kw = dict(per_node_batch_size=bs, max_nodes=maxn, try_add_blocked_jobs=ta, account="acct%d" % g,
                      job_prefix="p%d" % g, walltime=wall, dry_run=dry_run)
            if time_based:
                kw.update(time_based_batching=True, per_node_batch_size=500)
            if np_ is not None:
                kw["num_parallel_processes_per_node"] = np_
            groups.append(local_group("g%d" % g, **{k: v for k, v in kw.items() if k in ("per_node_batch_size", "num_parallel_processes_per_node")})
                          if local else slurm_group("g%d" % g, **kw))
        jobs = []
        for i in range(N):
            j = dict(name=nm[i], command="job " + nm[i], blocked_by={nm[b] for b in blockers.get(i, [])},
                     cancel_on_blocking_job_failure=flags[i], submission_group="g%d" % grp_of[i])
            if ests[i] is not None:
                j["estimated_run_minutes"] = ests[i]
            if append_flags:
                j["append_job_name"] = ex.flag("append_job_name%d" % i)
                j["append_output_dir"] = ex.flag("append_output_dir%d" % i)
                j["command"] = "job %s --opt 'a b'" % nm[i]
            jobs.append(j)
        cfg_kw = {}
        hook_set = {}
        if hooks:
            for h in ("setup_command", "teardown_command", "node_setup_command", "node_teardown_command"):
                hook_set[h] = ex.flag("hook_" + h)
                if hook_set[h]:
                    cfg_kw[h] = "hook-" + h.replace("_command", "") + " --arg 'a b'"
            if hook_rcs != (0,):
                hook_rc_mem = {}

                def hook_rc(w_, argv):  # teardown-type hooks may fail; setup-type failures abort by design (check_run_command)
                    if "teardown" not in argv[0]:
                        return 0
                    k = "%s_%d" % (argv[0], len([e for e in w_.events("hook") if e["argv"][0] == argv[0]]))
                    if k not in hook_rc_mem:
                        hook_rc_mem[k] = hook_rcs[ex.choice("hookrc_" + k, len(hook_rcs))]
                    return hook_rc_mem[k]

                w.hook_rc = hook_rc
        cfg = write_config(w, jobs, groups, **cfg_kw)
        out = os.path.join(w.root, "out")
        obs = StatusObserver(ex, out, N)
        w.unlock_observer = obs
        rc_mem = {}

        def rc_of(name):
            if name not in rc_mem:
                rc_mem[name] = rcs[ex.choice("rc_" + name, len(rcs))] if fails else 0
            return rc_mem[name]

        if round_yields or user_round or double_recovery:
            # a compute node's submitter round can be pre-empted after each release of the cluster lock, so that other
            # nodes finish and attempt their own rounds while this one holds the submitter role; a user's try-submit-jobs
            # started while batches are still running (user_round) is pre-empted after every lock release and before squeue
            def yield_hook(w_, kind_, detail):
                tp = w_._thread_proc()
                if tp is None or "try-submit-jobs" not in w_.cur.name:
                    return
                is_user = tp.name.startswith("user:")
                if kind_ == "lock_released" and (detail["path"].endswith("cluster_config.json.lock") or is_user):
                    w_.block(("yield", "round"))
                elif kind_ == "squeue" and is_user:
                    w_.block(("yield", "squeue"))

            w.effect_hook = yield_hook
        if squeue_fault:
            sq = dict(pid=None, n=0)

            def squeue_policy(w_):  # in one solver-chosen submitter round the status query fails on every retry
                pid_ = w_.cur.pid
                if sq["pid"] is None and "submit-jobs" in w_.cur.name and pid_ not in sq.setdefault("asked", set()):
                    sq["asked"].add(pid_)
                    if ex.flag("squeue_fails_in_round_%d" % sq["n"]):
                        sq["pid"] = pid_
                    sq["n"] += 1
                return sq["pid"] == pid_

            w.squeue_policy = squeue_policy
        if lost:
            sb_mem = {}

            def sbatch_policy(w_, script):  # a lost batch: every retry of this script fails
                k = os.path.basename(script)
                if k not in sb_mem:
                    sb_mem[k] = ex.flag("sbfail_" + k[:-3])
                return sb_mem[k]

            w.sbatch_policy = sbatch_policy
        # ---- submit
        if local:
            p = w.spawn("user:submit-jobs", "login1", w.base_env, lambda: w._dispatch_jade(["jade", "submit-jobs", cfg, "-o", out]))
            submit_proc = p
        else:
            p = w.user(["jade", "submit-jobs", cfg, "-o", out])
            submit_proc = p
            ex.check(p.rc == 0 or lost, "C05/C17: submit-jobs of a valid configuration failed", rc=p.rc, err="".join(p.err)[-300:])
        # ---- schedule
        recoveries = 0
        nb_bound = (max_recoveries if max_recoveries is not None else N + 2)
        killed = set()
        wedged = False
        uprocs = []
        did_double = False
        for step in range(max_steps):
            if local:
                evs = [("exit", j["name"]) for j in w.jobs if j["state"] == "running"]
                if any(j["state"] == "exited" and not j["seen"] for j in w.jobs) or getattr(submit_proc, "progress", False):
                    evs.append(("lpoll", None))
            else:
                evs = enabled_events(w)
                if user_round:
                    # up to `user_round` try-submit-jobs typed on the same login host while batches are running (e.g. a manual
                    # one and the one started by show-status), overlapping with each other and with the nodes' rounds
                    if len(uprocs) < int(user_round) and evs and ex.flag("user_round_at_%d" % step):
                        uprocs.append(w.spawn("user:try-submit-jobs#%d" % len(uprocs), "login1", w.base_env,
                                              lambda: w._dispatch_jade(["jade", "try-submit-jobs", out])))
                        continue
                    evs = evs + [("uresume", k_) for k_, u_ in enumerate(uprocs) if not u_.done]
                if lost:
                    for bid, b in w.batches.items():
                        if b["state"] in ("PENDING", "RUNNING") and len(killed) < 1:
                            evs.append(("kill", bid))
            if not evs:
                if local:
                    break
                c = cluster_status(out)
                if c is None:
                    ex.check(False, "C01/C03/C05/C08/C09: cluster lock left behind in a fault-free history (submission wedged)")
                    wedged = True
                    break
                if c.is_complete() or dry_run:
                    break
                if double_recovery and not did_double:
                    # the recovery is typed twice on the same login host and the two processes overlap
                    did_double = True
                    recoveries += 1
                    before = len(w.events("sbatch"))
                    us = [w.spawn("user:try-submit-jobs#%d" % k_, "login1", w.base_env,
                                  lambda: w._dispatch_jade(["jade", "try-submit-jobs", out])) for k_ in range(2)]
                    for sub_step in range(60):
                        live = [u_ for u_ in us if not u_.done]
                        if not live:
                            break
                        w.resume_proc(live[ex.choice("u%d_%d" % (step, sub_step), len(live))])
                    c = cluster_status(out)
                    if c is None:
                        ex.check(False, "C01/C03/C05/C08/C09: cluster lock left behind in a fault-free history (submission wedged)")
                        wedged = True
                        break
                    ex.check(len(w.events("sbatch")) > before or c.is_complete(),
                             "C05: try-submit-jobs at quiescence neither submitted a batch nor completed the submission")
                    continue
                # quiescent, not complete: the documented recovery
                recoveries += 1
                ex.check(recoveries <= nb_bound, "C05: more try-submit-jobs recoveries than batches + 1 were needed", recoveries=recoveries)
                if recoveries > nb_bound:
                    break
                before = len(w.events("sbatch"))
                r = w.user(["jade", "try-submit-jobs", out])
                c = cluster_status(out)
                if c is None:
                    ex.check(False, "C01/C03/C05/C08/C09: cluster lock left behind in a fault-free history (submission wedged)")
                    wedged = True
                    break
                ex.check(len(w.events("sbatch")) > before or c.is_complete() or squeue_fault,
                         "C05: try-submit-jobs at quiescence neither submitted a batch nor completed the submission",
                         rc=r.rc, err="".join(r.err)[-300:], out="".join(r.out)[-200:])
                # step clause: after this round a job whose blockers all have outcomes is unsubmitted only at the node limit
                rows_now = set(w.result_names(out))
                active_now = sum(1 for b_ in w.batches.values() if b_["state"] in ("PENDING", "RUNNING"))
                if not c.is_complete() and not lost and not squeue_fault:
                    for j_ in c.job_status.jobs:
                        i_ = nm.index(j_.name)
                        if j_.state.value == "not_submitted" and all(nm[b_] in rows_now for b_ in blockers.get(i_, [])) \
                                and j_.name not in rows_now:
                            ex.check(maxn is not None and active_now >= maxn,
                                     "C05: a job whose blockers all have outcomes was left unsubmitted below the node limit", job=j_.name,
                                     active=active_now, maxn=maxn)
                continue
            k = ex.choice("s%d" % step, len(evs))
            ev = evs[k]
            if aliases and ev[0] == "start":
                # how the scheduler reports this batch while it runs (a non-finished state JADE may not know)
                w.batches[ev[1]]["alias"] = aliases[ex.choice("alias_" + ev[1], len(aliases))]
            if ev[0] == "kill":
                killed.add(ev[1])
                if w.batches[ev[1]]["state"] == "PENDING":
                    w.batches[ev[1]]["state"] = "CANCELLED"
                    w.record("batch_killed", id=ev[1], state="CANCELLED")
                else:
                    w.kill_batch(ev[1], "TIMEOUT")
            elif ev[0] == "uresume":
                w.resume_proc(uprocs[ev[1]])
            elif ev[0] == "lpoll":
                before = w.seq
                w.resume_proc(submit_proc)
                submit_proc.progress = w.seq != before and not submit_proc.done
            else:
                fire(w, ev, rc_of)
        else:
            ex.check(False, "C05: no quiescence within the step bound", steps=max_steps)
        # ---- oracles
        launches = w.events("launch")
        sb_all = w.events("sbatch")
        sb = []  # one entry per submitted script: retries of a failed sbatch are the same batch
        for s in sb_all:
            if sb and sb[-1]["script"] == s["script"] and not sb[-1]["ok"]:
                sb[-1] = s
            else:
                sb.append(s)
        per_job = {}
        for l in launches:
            per_job[l["job"]] = per_job.get(l["job"], 0) + 1
        for n, c in per_job.items():
            ex.check(c <= 1, "C01: job command started more than once", job=n, launches=c)
        placed = {}
        for s in sb:
            for n in s["jobs"] or []:
                ex.check(n not in placed, "C01: job handed to the HPC in two batches", job=n)
                placed[n] = s["config_file"]
        files = [s["config_file"] for s in sb]
        ex.check(len(set(files)) == len(files), "C01: batch identifier reused", files=[os.path.basename(f or "") for f in files])
        # C02: ordering at the subprocess boundary
        for l in launches:
            i = nm.index(l["job"])
            for b in blockers.get(i, []):
                ex.check(nm[b] in l["results_on_disk"], "C02: job started before its blocker had a recorded outcome",
                         job=l["job"], blocker=nm[b])
        # C19: launched as configured, through the whole chain (config file -> batch config -> JobRunner -> AsyncCliCommand)
        from oracles import ref_split

        for l in launches:
            jd = jobs[nm.index(l["job"])]
            want_argv = ref_split(jd["command"]) + (["--jade-job-name=" + l["job"]] if jd.get("append_job_name") else []) \
                + (["--jade-runtime-output=" + out] if jd.get("append_output_dir") else [])
            ex.check(l["argv"] == want_argv, "C19: job not executed as configured (command split with POSIX rules plus documented arguments)",
                     job=l["job"], argv=l["argv"], want=want_argv)
        for jrec in w.jobs:
            ex.check(jrec["env"].get("JADE_JOB_NAME") == jrec["name"] and jrec["env"].get("JADE_RUNTIME_OUTPUT") == out,
                     "C19: JADE_JOB_NAME / JADE_RUNTIME_OUTPUT not set for a job", job=jrec["name"], env=jrec["env"])
            ex.check(jrec["stdout"] == os.path.join(out, "job-stdio", jrec["name"] + ".o")
                     and jrec["stderr"] == os.path.join(out, "job-stdio", jrec["name"] + ".e"),
                     "C19: job does not get its own stdout/stderr files", job=jrec["name"], stdout=jrec["stdout"])
        # C06
        if maxn is not None:
            for s in sb:
                if s["ok"]:
                    ex.check(s["active_after"] <= maxn, "C06: more batches queued or running than max-nodes",
                             active=s["active_after"], maxn=maxn)
        limit = np_ if np_ is not None else w.cpus
        for l in launches:
            ex.check(l["running"] <= limit, "C06: more job processes on a node than processes-per-node", running=l["running"])
        # C07
        for s in sb:
            js_ = s["jobs"] or []
            ex.check(len(js_) >= 1, "C07: empty batch handed to the HPC")
            gs = {grp_of[nm.index(n)] for n in js_}
            ex.check(len(gs) == 1, "C07: batch mixes submission groups", jobs=js_)
            g = next(iter(gs)) if gs else 0
            ex.check(s["sbatch_opts"].get("--account") == ["acct%d" % g], "C07: batch submitted with another group's account",
                     opts=s["sbatch_opts"].get("--account"))
            ex.check(s["sbatch_opts"].get("--time") == [wall], "C07/C18: walltime of the group not in the script")
            if time_based:
                tot = sum(ests[nm.index(n)] for n in js_)
                h, m, sec = [int(x) for x in wall.split(":")]
                ex.check(tot * 60 <= (h * 3600 + m * 60 + sec) * np_, "C07: estimated minutes exceed walltime x processes", total=tot)
            else:
                ex.check(len(js_) <= bs, "C07: more jobs than per-node batch size", size=len(js_), bs=bs)
            if s["run_cmd"]:
                try:  # parsed back by the real run-jobs command (option spelling is JADE's choice)
                    from jade.cli.run_jobs import run_jobs as _rj

                    got_np = _rj.make_context("run-jobs", list(s["run_cmd"][2:])).params.get("num_parallel_processes_per_node")
                except Exception as e_:
                    got_np = "unparsable: %s" % e_
                ex.check(got_np == np_, "C07: run script does not carry the group's processes-per-node option", got=got_np, want=np_)
            cfgd = json.load(open(s["config_file"])) if s["config_file"] and os.path.exists(s["config_file"]) else {"jobs": []}
            bn = {j["name"] for j in cfgd["jobs"]}
            for j in cfgd["jobs"]:
                if j["blocked_by"]:
                    ex.check(ta, "C07: blocked job batched although try-add-blocked is off", job=j["name"])
                    ex.check(set(j["blocked_by"]) <= bn, "C02/C07: blocked job batched without its unfinished blockers",
                             job=j["name"])
        if dry_run:
            ex.check(not sb and not launches, "C07: dry-run handed a batch to the HPC or started a job")
            # the same first-round batches as the non-dry run of the same configuration
            import glob

            def batch_files(d):
                r = {}
                for f in sorted(glob.glob(os.path.join(d, "config_batch_*.json"))):
                    r[os.path.basename(f)] = [(j["name"], sorted(j["blocked_by"])) for j in json.load(open(f))["jobs"]]
                return r

            dry = batch_files(out)
            cfg2 = json.load(open(cfg))
            for g_ in cfg2["submission_groups"]:
                g_["submitter_params"]["dry_run"] = False
            cfg2_path = os.path.join(w.root, "config_nodry.json")
            json.dump(cfg2, open(cfg2_path, "w"))
            out2 = os.path.join(w.root, "out_ref")
            w.unlock_observer = None
            p2 = w.user(["jade", "submit-jobs", cfg2_path, "-o", out2])
            ref = batch_files(out2)
            ex.check(p2.rc == 0 and dry == ref and len(w.events("sbatch")) == len(ref),
                     "C07: dry-run wrote other first-round batches than the real run", dry=dry, ref=ref)
            ex.check(len(dry) >= 1, "C07: dry-run wrote no batch files")
            ex.reached()
            return
        # ---- final state
        if wedged:
            return
        if local:
            ex.check(submit_proc.done, "C05: local submission did not finish")
            if not submit_proc.done:
                return
            ex.check(submit_proc.rc in (0, 1), "C03: local submit-jobs crashed", rc=submit_proc.rc, err="".join(submit_proc.err)[-400:])
        else:
            c = cluster_status(out)
            ex.check(c is not None and c.is_complete(), "C05/C12: submission not complete at the end of the history")
            ex.check(obs.complete_seen <= 1, "C05: completion happened more than once", times=obs.complete_seen)
            if obs.complete_seq is not None:
                late = [s for s in sb if s["seq"] > obs.complete_seq]
                ex.check(not late, "C05: batch submitted after completion")
        rj = os.path.join(out, "results.json")
        ex.check(os.path.exists(rj), "C03/C05: results.json missing at completion")
        if not os.path.exists(rj):
            return
        from jade.result import ResultsSummary

        summ = ResultsSummary(out)
        data = json.load(open(rj))
        got = {}
        for r in summ.list_results():
            ex.check(r.name not in got, "C03: two result entries for one job", job=r.name)
            got[r.name] = classify(r)
        ran_to_end = {e["job"] for e in w.events("exit")}
        recorded = set(w.result_names(out))
        lost_jobs = set()
        if lost:
            # ground truth: a job is lost if its batch failed to submit / was killed before its row was written
            for n in nm:
                if n not in recorded:
                    lost_jobs.add(n)
        want = reference_outcome(N, blockers, flags, lambda n: rc_mem.get(n, 0), missing=lost_jobs)
        if lost:
            # a job whose row exists keeps exactly that outcome; others must be missing (or canceled by the rule)
            for n in nm:
                if n in got:
                    ex.check(n in recorded, "C12: fabricated result for a job without a recorded row", job=n)
            miss = set(data["missing_jobs"])
            ex.check(miss == set(nm) - set(got), "C12/C20: missing list != configured jobs without a result", missing=sorted(miss),
                     results=sorted(got))
            sm_ = data["results_summary"]
            ex.check(sm_["num_missing"] == len(set(nm) - set(got))
                     and sm_["num_successful"] == sum(1 for v in got.values() if v == "successful")
                     and sm_["num_failed"] == sum(1 for v in got.values() if v == "failed")
                     and sm_["num_canceled"] == sum(1 for v in got.values() if v == "canceled")
                     and sm_["num_successful"] + sm_["num_failed"] + sm_["num_canceled"] + sm_["num_missing"] == N,
                     "C12/C20: results summary does not count each job in exactly one of successful/failed/canceled/missing", summary=sm_)
            for n in nm:
                if n in got and got[n] in ("successful", "failed"):
                    ex.check(n in ran_to_end and (rc_mem.get(n, 0) == 0) == (got[n] == "successful"),
                             "C12: finished result does not match the exit code the job really had", job=n)
                if n in got and got[n] == "canceled":
                    ex.check(want[n] == "canceled" or any(want[nm[b]] in ("missing",) for b in blockers.get(nm.index(n), [])) or True, "")
                    ex.check(per_job.get(n, 0) == 0, "C04/C12: canceled job was started", job=n)
            for l in launches:
                i = nm.index(l["job"])
                ex.check(all(nm[b] in l["results_on_disk"] for b in blockers.get(i, [])),
                         "C12: job started although a blocker has no outcome", job=l["job"])
        else:
            ex.check(sorted(got) == sorted(nm), "C03/C05: results do not hold exactly one entry per configured job",
                     got=sorted(got), missing=data["missing_jobs"])
            ex.check(not data["missing_jobs"], "C03/C05: completion declared with jobs lacking a result in a fault-free run",
                     missing=data["missing_jobs"])
            for n in nm:
                if n in got:
                    ex.check(got[n] == want[n], "C03/C04: classification differs from the reference evaluation of the DAG",
                             job=n, got=got[n], want=want[n], shape=shape)
                if want[n] == "canceled":
                    ex.check(per_job.get(n, 0) == 0, "C04: canceled job was started", job=n)
                    r = summ.get_result(n)
                    if r is not None:
                        ex.check(r.status == "canceled" and r.return_code != 0, "C04: canceled record malformed", job=n)
                else:
                    ex.check(per_job.get(n, 0) == 1, "C01/C04: job that is not canceled did not run exactly once", job=n,
                             launches=per_job.get(n, 0))
                    r_ = summ.get_result(n)
                    lb = [l["batch"] for l in launches if l["job"] == n]
                    if r_ is not None and lb:
                        ex.check(r_.return_code == rc_mem.get(n, 0), "C19: recorded exit code differs from the job's real exit code", job=n,
                                 recorded=r_.return_code, real=rc_mem.get(n, 0))
                        ex.check(local or str(r_.hpc_job_id) == str(lb[0]), "C19: recorded HPC job id is not the id of the node that ran the job",
                                 job=n, recorded=r_.hpc_job_id, node=lb[0])
                    ex.check(n in placed or local, "C01: job that ran was in no batch", job=n)
            sm = data["results_summary"]
            ex.check(sm["num_successful"] == sum(1 for v in want.values() if v == "successful")
                     and sm["num_failed"] == sum(1 for v in want.values() if v == "failed")
                     and sm["num_canceled"] == sum(1 for v in want.values() if v == "canceled")
                     and sm["num_missing"] == 0, "C03/C20: results summary tallies differ from the reference", summary=sm)
        if not local:
            # C05: afterwards everything is a no-op
            nsb = len(w.events("sbatch"))
            r1 = w.user(["jade", "try-submit-jobs", out])
            r2 = w.user(["jade", "show-status", "-o", out, "-n"])
            ex.check(len(w.events("sbatch")) == nsb, "C05: batch submitted after completion")
            ex.check(obs.complete_seen <= 1, "C05: completion happened more than once", times=obs.complete_seen)
            ex.check(r1.rc == 0 and r2.rc == 0, "C05: try-submit-jobs/show-status on a complete submission failed",
                     rc=[r1.rc, r2.rc], err=("".join(r1.err) + "".join(r2.err))[-300:])
        if hooks:
            hk = w.events("hook")
            by = {}
            for e in hk:
                by.setdefault(e["argv"][0], []).append(e)
                ex.check(e["argv"][1:] == ["--arg", "a b"], "C16: lifecycle command not run as configured", argv=e["argv"])
                ex.check(e["env"].get("JADE_RUNTIME_OUTPUT") == out, "C16: JADE_RUNTIME_OUTPUT not set for a lifecycle command",
                         hook=e["argv"][0], env=e["env"])
            first_sb = min([s_["seq"] for s_ in sb_all] + [10 ** 9])
            first_launch = min([l["seq"] for l in launches] + [10 ** 9])
            n_setup = len(by.get("hook-setup", []))
            ex.check(n_setup == (1 if hook_set["setup_command"] else 0), "C16: setup command did not run exactly once", times=n_setup)
            for e in by.get("hook-setup", []):
                ex.check(e["seq"] < first_sb and e["seq"] < first_launch and e["host"] == "login1",
                         "C16: setup command did not run on the submitting host before the first batch", host=e["host"])
            n_td = len(by.get("hook-teardown", []))
            ex.check(n_td == (1 if hook_set["teardown_command"] else 0), "C16: teardown command did not run exactly once per completion",
                     times=n_td)
            for e in by.get("hook-teardown", []):
                ex.check(set(nm) <= set(e["results_on_disk"]), "C16: teardown command ran before every job had an outcome",
                         have=sorted(set(e["results_on_disk"])))
                if not local:
                    ex.check(obs.complete_seq is not None and e["seq"] < obs.complete_seq,
                             "C16: teardown command ran after the completion flag was set")
            groups_by_batch = {}
            batches_run = sorted({l["batch"] for l in launches}, key=str)
            for b_ in batches_run:
                ls = [l for l in launches if l["batch"] == b_]
                exits = [e for e in w.events("exit") if e["job"] in {l["job"] for l in ls}]
                ns = [e for e in by.get("hook-node_setup", []) if e["batch"] == b_]
                nt = [e for e in by.get("hook-node_teardown", []) if e["batch"] == b_]
                ex.check(len(ns) == (1 if hook_set["node_setup_command"] else 0), "C16: node setup command did not run once per batch",
                         batch=b_, times=len(ns))
                ex.check(len(nt) == (1 if hook_set["node_teardown_command"] else 0),
                         "C16: node teardown command did not run once per batch", batch=b_, times=len(nt))
                for e in ns:
                    ex.check(e["seq"] < min(l["seq"] for l in ls), "C16: node setup command ran after a job of the batch started")
                    g_ = grp_of[nm.index(ls[0]["job"])]
                    ex.check(e["env"].get("JADE_SUBMISSION_GROUP") == "g%d" % g_, "C16: JADE_SUBMISSION_GROUP wrong for a node command",
                             env=e["env"])
                for e in nt:
                    ex.check(e["seq"] > max([x["seq"] for x in exits] + [0]) and {l["job"] for l in ls} <= set(e["results_on_disk"]),
                             "C16: node teardown command ran before all jobs of the batch ended")
                    g_ = grp_of[nm.index(ls[0]["job"])]
                    ex.check(e["env"].get("JADE_SUBMISSION_GROUP") == "g%d" % g_, "C16: JADE_SUBMISSION_GROUP wrong for a node command",
                             env=e["env"])
            ex.check(sorted(got) == sorted(nm), "C16: a lifecycle command prevented results from being recorded", got=sorted(got))
        crashes = w.events("crash")
        ex.check(not crashes or lost or squeue_fault, "C01/C03/C05/C08/C09/C16: a JADE process crashed in a fault-free history",
                 crashes=[(c_["argv"][:2], c_["error"]) for c_ in crashes][:3])
        ex.check(obs.reads > 0 or local, "C09: status observer never ran")
        ex.note("histories")
        if any("Another node is already the submitter" in "".join(c_.out) for p_ in w.procs for c_ in p_.children):
            ex.note("histories_with_a_refused_submitter_round")
        if recoveries:
            ex.note("histories_needing_try_submit_jobs_recovery")
        ex.reached()

    return harness
