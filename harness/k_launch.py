"""C19 on jsym: K-launch/split (command strings chosen character by character by the
solver -> real GenericCommandExecution.generate_command -> real AsyncCliCommand.run ->
argv/env/stdio at Popen), K-launch/rc (all exit codes -> real _complete -> row read back
through ResultsAggregator), K-launch/real (a few launches with a real subprocess)."""
import json
import os
import sys

from oracles import ref_split
from .common import ProcProtocol, bootstrap, fresh_dir

ALPHABET = ["a", " ", "\t", "'", '"', "\\", "$", ";", "=", "-"]
JOBNAMES = ["j0", "name-with.dots_1", "7"]


def _mk(ex, out, name, command, ajn, aod, hpc_id="5150", batch=3, manager=True):
    import jade.jobs.async_cli_command as acc
    from jade.extensions.generic_command import GenericCommandExecution, GenericCommandParameters

    job = GenericCommandParameters(name=name, command=command, append_job_name=ajn, append_output_dir=aod)
    jobs_output = os.path.join(out, "job-outputs")
    cli = GenericCommandExecution.generate_command(job, jobs_output, os.path.join(out, "config.json"), verbose=False)
    return job, acc.AsyncCliCommand(job, cli, out, batch, manager, hpc_id)


def k_launch_split(max_len=4, alphabet=None):
    from world import world

    world.install()
    bootstrap()
    alpha = alphabet or ALPHABET

    def harness(ex):
        n = ex.choice("len", max_len + 1)
        chars = [alpha[ex.choice("c%d" % i, len(alpha))] for i in range(n)]
        text = "".join(chars)
        ajn, aod = ex.flag("append_job_name"), ex.flag("append_output_dir")
        name = JOBNAMES[ex.choice("jobname", len(JOBNAMES))]
        out = fresh_dir("klaunch")
        os.makedirs(os.path.join(out, "job-stdio"))
        try:
            job, cmd = _mk(ex, out, name, "x" + text, ajn, aod)  # a leading word: the model strips outer whitespace
        except Exception as e:
            ex.check(False, "C19: valid command rejected by the job model", error=str(e)[:200], command="x" + text)
            return
        configured = job.command
        calls = []

        class P(ProcProtocol):
            pid = 77
            returncode = None

            def poll(self):
                return None

        def popen(argv, *a, **kw):
            calls.append((list(argv), kw))
            return P()

        world.KERNEL.update(popen=popen, now=lambda: 500.0)
        err = None
        try:
            cmd.run()
        except ValueError as e:
            err = e
        finally:
            world.KERNEL.update(popen=None, now=None)
            for fp in (cmd._stdout_fp, cmd._stderr_fp):
                if fp is not None and not fp.closed:
                    fp.close()
            cmd._is_pending = False
        try:
            want = ref_split(configured)
            bad = False
        except ValueError:
            want, bad = None, True
        if bad:
            if not ajn and not aod:
                ex.check(err is not None and not calls, "C19: malformed command (open quote / trailing backslash) was launched",
                         command=configured, argv=calls[0][0] if calls else None)
            ex.reached()
            return
        extras = []
        if ajn:
            extras.append("--jade-job-name=" + name)
        if aod:
            extras.append("--jade-runtime-output=" + out)
        ex.check(err is None and len(calls) == 1, "C19: well-formed command not launched exactly once", command=configured,
                 error=str(err))
        if len(calls) != 1:
            return
        argv, kw = calls[0]
        ex.check(argv == want + extras, "C19: job not executed as the configured command split with POSIX rules plus the documented arguments",
                 command=configured, argv=argv, want=want + extras)
        env = kw.get("env") or {}
        ex.check(env.get("JADE_RUNTIME_OUTPUT") == out and env.get("JADE_JOB_NAME") == name,
                 "C19: JADE_RUNTIME_OUTPUT / JADE_JOB_NAME not set for the job", env={k: v for k, v in env.items() if k.startswith("JADE")})
        ex.check(all(env.get(k) == v for k, v in os.environ.items()), "C19: the job does not inherit the node's environment")
        so, se = kw.get("stdout"), kw.get("stderr")
        ex.check(getattr(so, "name", None) == os.path.join(out, "job-stdio", name + ".o")
                 and getattr(se, "name", None) == os.path.join(out, "job-stdio", name + ".e"),
                 "C19: job does not get its own stdout/stderr files", stdout=str(getattr(so, "name", None)))
        ex.check(kw.get("shell") in (None, False), "C19: job launched through a shell")
        ex.reached()

    return harness


def k_launch_rc():
    from world import world

    world.install()
    bootstrap()
    from jade.jobs.results_aggregator import ResultsAggregator

    def harness(ex):
        out = fresh_dir("klaunchrc")
        os.makedirs(os.path.join(out, "job-stdio"))
        os.makedirs(os.path.join(out, "results"))
        ResultsAggregator.create(out)
        names_ = JOBNAMES[: 1 + ex.choice("njobs", 2)]
        hpc_id = ["5150", "77"][ex.choice("node", 2)]
        pipes = {}
        rc = {}

        class P(ProcProtocol):
            def __init__(self, name):
                self.name, self.returncode, self.pid = name, None, 100 + len(pipes)

            def poll(self):
                return self.returncode

        def popen(argv, *a, **kw):
            p = P(kw["env"]["JADE_JOB_NAME"])
            pipes[p.name] = p
            return p

        now = [100.0]
        world.KERNEL.update(popen=popen, now=lambda: now[0])
        cmds = []
        try:
            for n in names_:
                job, cmd = _mk(ex, out, n, "run " + n, False, False, hpc_id=hpc_id, batch=4)
                cmd.run()
                cmds.append(cmd)
            for k, cmd in enumerate(cmds):
                ex.check(not cmd.is_complete(), "C19: running job reported complete")
                # job 0: every exit code 0..255 (realised, i.e. forked over, when the row is written); job 1: three values
                rc[cmd.name] = ex.int("rc_%d" % k, 0, 255) if k == 0 else [0, 1, 255][ex.choice("rc_%d" % k, 3)]
                now[0] += 7.5
                pipes[cmd.name].returncode = rc[cmd.name]
                ex.check(cmd.is_complete(), "C19: exited job not reported complete")
                ex.check(cmd.return_code == rc[cmd.name], "C19: return code of the queue entry differs from the process exit code")
        finally:
            world.KERNEL.update(popen=None, now=None)
            for cmd in cmds:
                for fp in (cmd._stdout_fp, cmd._stderr_fp):
                    if fp is not None and not fp.closed:
                        fp.close()
                cmd._is_pending = False
        node_file = os.path.join(out, "results", "results_batch_4.csv")
        ex.check(os.path.exists(node_file), "C19: result not written to the batch's result file")
        agg = ResultsAggregator.load(out)
        new = agg.process_results()
        rows = ResultsAggregator.list_results(out)
        ex.check(sorted(r.name for r in rows) == sorted(names_) and sorted(r.name for r in new) == sorted(names_),
                 "C19: recorded results do not hold exactly the jobs that ran", rows=[r.name for r in rows])
        for r in rows:
            ex.check(r.return_code == ex.value(rc[r.name]), "C19: recorded exit code differs from the real exit code", job=r.name,
                     got=r.return_code)
            ex.check(r.hpc_job_id == hpc_id, "C19: recorded HPC job id is not the id of the node that ran the job", got=r.hpc_job_id)
            ex.check(r.status == "finished", "C19: recorded status of a job that ran is not finished", got=r.status)
            ex.check(r.exec_time_s >= 0, "C19: negative execution time recorded")
        ex.reached()

    return harness


PROBE = r'''
import json, os, sys
json.dump(dict(argv=sys.argv[1:], env={k: v for k, v in os.environ.items() if k.startswith("JADE_")}, cwd=os.getcwd()),
          open(os.environ["VERIF_PROBE_OUT"], "w"))
sys.exit(int(os.environ.get("VERIF_PROBE_RC", "0")))
'''
REAL_COMMANDS = ["a 'b c' \"d e\"", "x\\ y  z", "--opt='q\"r' k=v", "\"a\\\"b\" '\\n' $HOME ;ls", "  lead   trail  ", "é 雪 \"ü ö\""]


def k_launch_real():
    """A real subprocess.Popen: the argv/env/cwd a probe process actually sees, and its real exit status."""
    bootstrap()
    import time

    from jade.jobs.results_aggregator import ResultsAggregator

    def harness(ex):
        out = fresh_dir("klaunchreal")
        os.makedirs(os.path.join(out, "job-stdio"))
        os.makedirs(os.path.join(out, "results"))
        ResultsAggregator.create(out)
        probe = os.path.join(out, "probe.py")
        open(probe, "w").write(PROBE)
        c = REAL_COMMANDS[ex.choice("command", len(REAL_COMMANDS))]
        ajn, aod = ex.flag("append_job_name"), ex.flag("append_output_dir")
        rc = [0, 3, 255][ex.choice("rc", 3)]
        dump = os.path.join(out, "probe.json")
        os.environ["VERIF_PROBE_OUT"] = dump
        os.environ["VERIF_PROBE_RC"] = str(rc)
        try:
            job, cmd = _mk(ex, out, "j0", "%s %s %s" % (sys.executable, probe, c), ajn, aod)
            cmd.run()
            t0 = time.time()
            while not cmd.is_complete():
                time.sleep(0.01)
                if time.time() - t0 > 60:
                    ex.check(False, "C19: real probe process did not finish")
                    return
        finally:
            os.environ.pop("VERIF_PROBE_OUT", None)
            os.environ.pop("VERIF_PROBE_RC", None)
        seen = json.load(open(dump))
        want = ref_split(job.command)[2:] + (["--jade-job-name=j0"] if ajn else []) + (["--jade-runtime-output=" + out] if aod else [])
        ex.check(seen["argv"] == want, "C19: a real process does not see the configured command split with POSIX rules",
                 seen=seen["argv"], want=want)
        ex.check(seen["env"].get("JADE_RUNTIME_OUTPUT") == out and seen["env"].get("JADE_JOB_NAME") == "j0",
                 "C19: JADE_RUNTIME_OUTPUT / JADE_JOB_NAME not visible to a real process", env=seen["env"])
        ex.check(seen["cwd"] == os.getcwd(), "C19: job does not run in the submitter's working directory")
        ResultsAggregator.load(out).process_results()
        rows = ResultsAggregator.list_results(out)
        ex.check(len(rows) == 1 and rows[0].name == "j0" and rows[0].return_code == rc,
                 "C19: recorded exit code differs from the real exit status", rows=[tuple(r) for r in rows], rc=rc)
        ex.reached()

    return harness


def k_launch_nonmanager():
    """A multi-node batch: only the manager node records results (completion and cancellation), other nodes never do."""
    from world import world

    world.install()
    bootstrap()
    from jade.jobs.results_aggregator import ResultsAggregator

    def harness(ex):
        out = fresh_dir("klaunchnm")
        os.makedirs(os.path.join(out, "job-stdio"))
        os.makedirs(os.path.join(out, "results"))
        ResultsAggregator.create(out)
        manager = ex.flag("manager_node")
        cancel = ex.flag("canceled")

        class P(ProcProtocol):
            pid = 5
            returncode = None

            def poll(self):
                return self.returncode

        pipe = P()
        world.KERNEL.update(popen=lambda argv, *a, **kw: pipe, now=lambda: 100.0)
        try:
            job, cmd = _mk(ex, out, "j0", "run j0", False, False, hpc_id="77", batch=4, manager=manager)
            if cancel:
                cmd.cancel()
                ex.check(cmd.is_complete() and cmd.return_code != 0, "C04: canceled queue entry not complete with a non-zero code")
            else:
                cmd.run()
                pipe.returncode = [0, 2][ex.choice("rc", 2)]
                ex.check(cmd.is_complete(), "C19: exited job not reported complete")
        finally:
            world.KERNEL.update(popen=None, now=None)
            for fp in (cmd._stdout_fp, cmd._stderr_fp):
                if fp is not None and not fp.closed:
                    fp.close()
            cmd._is_pending = False
        ResultsAggregator.load(out).process_results()
        rows = ResultsAggregator.list_results(out)
        ex.check(len(rows) == (1 if manager else 0), "C03/C19: result recorded by a node that is not the batch's manager node (or not recorded by the manager)",
                 manager=manager, canceled=cancel, rows=[tuple(r) for r in rows])
        if rows:
            ex.check(rows[0].status == ("canceled" if cancel else "finished"), "C03/C04: wrong status recorded", got=rows[0].status)
        ex.reached()

    return harness
