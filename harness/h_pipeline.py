"""C15: K-stage (PipelineManager._submit_next_stage over all stage/argument/return-code
combinations) and H-pipeline (whole pipelines through the real CLI in the world model)."""
import json
import os

from .common import bootstrap, fresh_dir, make_config, names, slurm_group
from .h_common import cluster_status, enabled_events, fire, setup_world


def _pipeline_file(d, n, local=False):
    from jade.jobs.pipeline_manager import PipelineManager
    from jade.models import SubmitterParams

    cfgs = []
    for k in range(n):
        c = make_config([dict(name="s%dj%d" % (k + 1, i), command="job s%dj%d" % (k + 1, i)) for i in range(2)], [])
        p = os.path.join(d, "stage%d.json" % (k + 1))
        c.dump(p)
        cfgs.append(p)
    sp = SubmitterParams(**slurm_group("default", per_node_batch_size=1)["submitter_params"])
    pf = os.path.join(d, "pipeline_in.json")
    PipelineManager.create_config_from_files(cfgs, pf, sp)
    return pf


def k_stage(max_stages=4):
    bootstrap()
    import jade.jobs.pipeline_manager as pm
    from jade.exceptions import InvalidParameter

    W = {}

    def rec_submit(config, output, pipeline_stage_num=None, **kw):
        W["submits"].append(dict(output=output, stage=pipeline_stage_num, config=config))
        return W["ret"]

    pm.JobSubmitter.run_submit_jobs = staticmethod(rec_submit)
    real_create = pm.create_config_from_file

    def harness(ex):
        import contextlib
        import io

        with contextlib.redirect_stdout(io.StringIO()):  # PipelineManager._serialize prints the stage number
            _harness(ex)

    def _harness(ex):
        n = 1 + ex.choice("stages", max_stages)
        persisted = 1 + ex.choice("persisted", n + 1)
        first = ex.flag("first_call")  # `jade pipeline submit` (no return code) vs `submit-next-stage`
        if first:
            ex.assume(persisted == 1)  # only a freshly created pipeline is started without a return code
            arg = ex.choice("arg", 3)
            rc = None
        else:
            arg = ex.choice("arg", n + 3)
            rc = [0, 1, -1, 255][ex.choice("rc", 4)]
        W.update(submits=[], ret=[0, 1][ex.choice("submit_ret", 2)])
        d = fresh_dir("kstage")
        out = os.path.join(d, "out")
        mgr = pm.PipelineManager.create(_pipeline_file(d, n), out)
        pj = os.path.join(out, "pipeline.json")
        data = json.load(open(pj))
        data["stage_num"] = persisted
        for k in range(persisted - 1):
            data["stages"][k]["return_code"] = 0
        data["is_complete"] = persisted == n + 1
        json.dump(data, open(pj, "w"), indent=2)
        before = open(pj).read()
        mgr = pm.PipelineManager.load(out)
        env_before = dict(os.environ)
        err = None
        try:
            mgr.submit_next_stage(arg, return_code=rc)
        except (InvalidParameter, AssertionError, IndexError) as e:
            err = e
        except pm.ExecutionError as e:
            err = e
        ex.check(dict(os.environ) == env_before, "C15: pipeline environment variables leak out of submit_next_stage")
        after = json.load(open(pj))
        legal = (first and arg == 1) or (not first and arg == persisted + 1 and persisted <= n)
        if not legal:
            ex.check(err is not None and not isinstance(err, pm.ExecutionError), "C15: out-of-order stage request not refused",
                     arg=arg, persisted=persisted)
            ex.check(not W["submits"], "C15: stage submitted although the request was out of order", arg=arg, persisted=persisted)
            ex.check(open(pj).read() == before, "C15: pipeline status changed by a refused request", arg=arg, persisted=persisted)
            ex.reached()
            return
        new_stage = 1 if first else arg
        ex.check(after["stage_num"] == new_stage, "C15: recorded current stage differs from what happened", got=after["stage_num"])
        if not first:
            ex.check(after["stages"][arg - 2]["return_code"] == rc, "C15: return code of the finished stage not recorded",
                     got=after["stages"][arg - 2]["return_code"])
        for k in range(n):
            if first or k != arg - 2:
                ex.check(after["stages"][k]["return_code"] == data["stages"][k]["return_code"],
                         "C15: return code of another stage changed", stage=k + 1)
        if new_stage == n + 1:
            ex.check(after["is_complete"] is True and not W["submits"] and err is None,
                     "C15: pipeline not marked complete after the last stage (or a stage was submitted)")
        else:
            ex.check(after["is_complete"] is False, "C15: pipeline marked complete before the last stage completed")
            ex.check(len(W["submits"]) == 1 and W["submits"][0]["stage"] == new_stage
                     and W["submits"][0]["output"] == os.path.join(out, "output-stage%d" % new_stage),
                     "C15: not exactly the next stage was submitted", submits=[(s["stage"], s["output"]) for s in W["submits"]])
            if W["submits"]:
                cfg = W["submits"][0]["config"]
                ex.check([j.name for j in cfg.iter_jobs()] == ["s%dj0" % new_stage, "s%dj1" % new_stage],
                         "C15: stage submitted with another stage's configuration")
            ex.check((err is not None) == (W["ret"] != 0), "C15: failure of the stage submission not reported")
        ex.reached()

    return harness


def h_pipeline(max_stages=2, local=False, fails=True, mid_dup=True):
    def harness(ex):
        from world.world import Hang

        w = setup_world(ex)
        try:
            _run(ex, w)
        except Hang as e:
            ex.check(False, "C15: a JADE process did not terminate", what=str(e)[:200], fatal=True)
        finally:
            w.close()

    def _run(ex, w):
        n = 1 + ex.choice("stages", max_stages)
        pf = _pipeline_file(w.root, n)
        out = os.path.join(w.root, "pout")
        rc_mem = {}

        def rc_of(name):
            if name not in rc_mem:
                rc_mem[name] = ex.choice("rc_" + name, 2) if fails else 0
            return rc_mem[name]

        r = w.user(["jade", "pipeline", "submit", pf, "-o", out])
        ex.check(r.rc == 0, "C15: pipeline submit failed", err="".join(r.err)[-400:])
        pj = os.path.join(out, "pipeline.json")
        stage_dir = lambda k: os.path.join(out, "output-stage%d" % k)  # noqa: E731
        complete_seq = {}
        dup_done = [False]
        for step in range(80):
            for k in range(1, n + 1):
                if k not in complete_seq and os.path.exists(os.path.join(stage_dir(k), "cluster_config.json")):
                    c = cluster_status(stage_dir(k))
                    if c is not None and c.is_complete():
                        complete_seq[k] = w.seq
            evs = enabled_events(w)
            cur_now = json.load(open(pj))["stage_num"]
            if mid_dup and evs and cur_now >= 2 and not dup_done[0] and ex.flag("dup_at_%d" % step):
                # a stale/duplicate completion report of an earlier stage arrives while a later stage is queued or running
                dup_done[0] = True
                nsb0, before0 = len(w.events("sbatch")), open(pj).read()
                r0 = w.user(["jade", "pipeline", "submit-next-stage", out, "--stage-num=%d" % cur_now, "--return-code=0"])
                ex.check(r0.rc != 0 and len(w.events("sbatch")) == nsb0 and open(pj).read() == before0,
                         "C15: duplicate stage transition accepted while a later stage is in progress", stage=cur_now, rc=r0.rc)
                continue
            if not evs:
                cur = json.load(open(pj))["stage_num"]
                if cur == n + 1:
                    break
                c = cluster_status(stage_dir(cur))
                if c is None:
                    ex.check(False, "C15: stage submission wedged")
                    return
                if c.is_complete():
                    ex.check(False, "C15: stage complete but the pipeline did not advance", stage=cur)
                    return
                before = len(w.events("sbatch"))
                w.user(["jade", "try-submit-jobs", stage_dir(cur)])
                c = cluster_status(stage_dir(cur))
                ex.check(len(w.events("sbatch")) > before or (c is not None and c.is_complete()), "C15: recovery made no progress")
                if not (len(w.events("sbatch")) > before or (c is not None and c.is_complete())):
                    return
                continue
            fire(w, evs[ex.choice("s%d" % step, len(evs))], rc_of)
        else:
            ex.check(False, "C15: pipeline did not finish within the step bound")
            return
        # ---- oracles
        final = json.load(open(pj))
        ex.check(final["is_complete"] is True and final["stage_num"] == n + 1, "C15: pipeline not marked complete at the end")
        launches = w.events("launch")
        first_launch = {}
        for l in launches:
            k = int(l["job"][1])
            first_launch.setdefault(k, l["seq"])
        # completion instants: observed through the children that ran submit-next-stage
        nexts = [e for e in w.events("child") if e["argv"][:3] == ["jade", "pipeline", "submit-next-stage"]]
        per_stage = {}
        for e in nexts:
            sn = int([a for a in e["argv"] if a.startswith("--stage-num=")][0].split("=")[1])
            per_stage.setdefault(sn, []).append(e)
        for k in range(2, n + 2):
            ex.check(len(per_stage.get(k, [])) == 1, "C15: stage transition not triggered exactly once", to_stage=k,
                     times=len(per_stage.get(k, [])))
        sbatch_stage = {}
        for s in w.events("sbatch"):
            k = int(os.path.basename(os.path.dirname(s["script"])).replace("output-stage", ""))
            sbatch_stage.setdefault(k, []).append(s["seq"])
        for k in range(1, n):
            done_k = [e["seq"] for e in w.log if e["kind"] == "unlock" and e["seq"] <= min(sbatch_stage.get(k + 1, [10 ** 9]))]
            c = cluster_status(stage_dir(k))
            ex.check(c is not None and c.is_complete(), "C15: earlier stage not complete at the end", stage=k)
            # every job of stage k has exited before anything of stage k+1 is handed to the HPC or started
            exits_k = [e["seq"] for e in w.events("exit") if e["job"].startswith("s%dj" % k)]
            nxt = min(sbatch_stage.get(k + 1, [10 ** 9]) + [first_launch.get(k + 1, 10 ** 9)])
            ex.check(len(exits_k) == 2 and max(exits_k) < nxt, "C15: next stage submitted before the previous stage completed",
                     stage=k + 1)
            # and the completion flag of stage k was set before (results.json exists by then)
            first_next = per_stage.get(k + 1, [{}])[0]
        for k in range(1, n + 1):
            jobs = [l["job"] for l in launches if l["job"].startswith("s%dj" % k)]
            ex.check(sorted(jobs) == ["s%dj0" % k, "s%dj1" % k], "C15: stage jobs not each started exactly once", stage=k, jobs=jobs)
            rj = os.path.join(stage_dir(k), "results.json")
            ex.check(os.path.exists(rj), "C15: stage has no results summary", stage=k)
            # the stage's return code is the status its completing submitter reported: 0 unless jobs are missing
            missing = json.load(open(rj))["missing_jobs"] if os.path.exists(rj) else ["?"]
            passed = [a for e in per_stage.get(k + 1, []) for a in e["argv"] if a.startswith("--return-code=")]
            want_rc = 1 if missing else 0
            ex.check(final["stages"][k - 1]["return_code"] == want_rc and passed == ["--return-code=%d" % want_rc],
                     "C15: recorded stage return code differs from what happened", stage=k,
                     got=final["stages"][k - 1]["return_code"], want=want_rc, passed=passed)
        # a duplicate submit-next-stage (e.g. a resubmitted stage completing again) is refused
        nsb = len(w.events("sbatch"))
        before = open(pj).read()
        dup = 2 + ex.choice("dup_stage", n)
        r = w.user(["jade", "pipeline", "submit-next-stage", out, "--stage-num=%d" % dup, "--return-code=0"])
        ex.check(r.rc != 0 and len(w.events("sbatch")) == nsb and open(pj).read() == before,
                 "C15: duplicate stage transition not refused", stage=dup, rc=r.rc)
        ex.reached()

    return harness
