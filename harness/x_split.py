"""E3 driver: runs CrossHair 0.0.110 (`crosshair check`) on harness/xsplit/contracts.py, one process per
condition in parallel, and turns its verdicts into the common obligation result."""
import ast
import os
import re
import subprocess
import sys
import time
from concurrent.futures import ThreadPoolExecutor

HERE = os.path.dirname(os.path.abspath(__file__))
FILE = os.path.join(HERE, "xsplit", "contracts.py")
REPO = os.environ.get("VERIF_REPO", "/repo")


def _line(fn):
    for i, l in enumerate(open(FILE).read().split("\n"), 1):
        if l.startswith("def %s(" % fn):
            return i
    raise KeyError(fn)


def _run(fn, timeout):
    env = dict(os.environ, PYTHONPATH=REPO, PYTHONHASHSEED="0")
    t = time.time()
    try:
        p = subprocess.run([sys.executable, "-m", "crosshair", "check", "--report_all", "--unblock=open",
                            "--per_condition_timeout", str(timeout), "%s:%d" % (FILE, _line(fn))],
                           capture_output=True, text=True, timeout=timeout + 120, env=env, cwd=os.path.dirname(FILE))
        out = (p.stdout + p.stderr).strip()
    except subprocess.TimeoutExpired:
        out = "driver timeout"
    return fn, out, time.time() - t


def _native(fn, call):
    """Replays a CrossHair counterexample natively: evaluates the contract function on the reported arguments."""
    sys.path.insert(0, os.path.dirname(FILE))
    import importlib

    mod = importlib.import_module("contracts")
    m = re.match(r"%s\((.*)\)$" % fn, call, re.S)
    args = ast.literal_eval("(" + m.group(1) + ",)")
    return getattr(mod, fn)(*args)


def x_split(conditions, twins, timeout=300):
    t0 = time.time()
    violations, inconclusive, samples, verdicts = [], [], [], {}
    with ThreadPoolExecutor(max_workers=min(16, len(conditions) + len(twins))) as ex:
        results = list(ex.map(lambda f: _run(f, timeout), list(conditions) + list(twins)))
    for fn, out, wall in results:
        last = out.split("\n")[-1] if out else ""
        verdicts[fn] = dict(verdict=last[-160:], wall_s=round(wall, 1))
        m = re.search(r"error: (.*?) when calling (%s\(.*?\))(?: with crosshair\.| \(which returns|$)" % fn, out, re.S)
        if fn in twins:
            if not m:
                inconclusive.append("reachability twin %s was not refuted: %s" % (fn, last[-200:]))
            continue
        if "Confirmed over all paths" in out:
            samples.append(dict(condition=fn, verdict="Confirmed over all paths", wall_s=round(wall, 1)))
        elif m:
            call = m.group(2)
            try:
                ok = _native(fn, call)
                replayed = ok is False
            except Exception as e:
                replayed = False
                call += "  [native replay raised %s]" % e
            violations.append(dict(message="C19: POSIX splitting by the real code differs from the reference for some string",
                                   assignment=dict(call=call), context=dict(condition=fn, crosshair=m.group(1)[:200]),
                                   replayed=replayed))
        else:
            inconclusive.append("CrossHair did not confirm %s: %s" % (fn, last[-300:]))
    n = len(conditions)
    done = sum(1 for f in conditions if "Confirmed over all paths" in verdicts[f]["verdict"])
    return dict(name="X-split", stats=dict(paths=n, completed=n, reached=done, queries=0, solver_s=0.0),
                violations=violations, inconclusive=inconclusive, samples=samples or [verdicts], exhausted=not inconclusive,
                notes=dict(verdicts=verdicts, engine="crosshair-tool 0.0.110, crosshair check --report_all, per-condition timeout %ds" % timeout),
                functions=["shlex.split (as called by jade.jobs.async_cli_command.AsyncCliCommand.run)",
                           "jade.extensions.generic_command.generic_command_execution.GenericCommandExecution.generate_command",
                           "jade.jobs.async_cli_command.AsyncCliCommand.__init__", "jade.jobs.async_cli_command.AsyncCliCommand.run"],
                wall_s=round(time.time() - t0, 1))


def replay_direct(data):
    call = data["assignment"]["call"].split("  [")[0]
    fn = call.split("(", 1)[0]
    ok = _native(fn, call)
    vs = [] if ok else [dict(message=data["message"], context=dict(call=call))]
    return "completed", vs
