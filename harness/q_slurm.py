"""E2: direct z3 queries over *unbounded* strings, generated at run time from the live
objects of /repo (SlurmManager._STATUSES, SlurmManager._REGEX_SBATCH_OUTPUT)."""
import time

import z3

from .common import bootstrap, slurm_group
from .k_slurm import NON_TERMINAL, TERMINAL, _Pipe


class Refuse(Exception):
    pass


def _re_from_sre(parsed):
    """Translate an re._parser SubPattern to a z3 regular expression (ASCII model of \\d)."""
    import re._constants as C

    def one(op, av):
        if op is C.LITERAL:
            return z3.Re(chr(av))
        if op is C.IN:
            parts = []
            for o, a in av:
                if o is C.LITERAL:
                    parts.append(z3.Re(chr(a)))
                elif o is C.RANGE:
                    parts.append(z3.Range(chr(a[0]), chr(a[1])))
                elif o is C.CATEGORY and a is C.CATEGORY_DIGIT:
                    parts.append(z3.Range("0", "9"))
                else:
                    raise Refuse("class item %s" % (o,))
            return parts[0] if len(parts) == 1 else z3.Union(*parts)
        if op is C.CATEGORY and av is C.CATEGORY_DIGIT:
            return z3.Range("0", "9")
        if op in (C.MAX_REPEAT, C.MIN_REPEAT):
            lo, hi, sub = av
            r = seq(sub)
            if hi is C.MAXREPEAT:
                if lo == 0:
                    return z3.Star(r)
                if lo == 1:
                    return z3.Plus(r)
                return z3.Concat(z3.Loop(r, lo, lo), z3.Star(r))
            return z3.Loop(r, lo, hi)
        if op is C.SUBPATTERN:
            return seq(av[3])
        if op is C.BRANCH:
            return z3.Union(*[seq(x) for x in av[1]])
        raise Refuse("operator %s" % (op,))

    def seq(items):
        rs = [one(op, av) for op, av in items]
        if not rs:
            return z3.Re("")
        return rs[0] if len(rs) == 1 else z3.Concat(*rs)

    return seq(list(parsed))


def _result(name, queries, solver_s, violations, inconclusive, samples, functions):
    return dict(name=name, stats=dict(paths=len(queries), completed=len(queries), reached=len(queries), queries=len(queries),
                                     solver_s=solver_s, unsat=sum(1 for q in queries if q[1] == "unsat"),
                                     sat=sum(1 for q in queries if q[1] == "sat"),
                                     unknown=sum(1 for q in queries if q[1] == "unknown")),
                violations=violations, inconclusive=inconclusive, samples=samples, functions=functions,
                exhausted=not inconclusive, notes={})


def q_status_table():
    bootstrap()
    from jade.hpc.common import HpcJobStatus
    from jade.hpc.slurm_manager import SlurmManager

    t0 = time.time()
    table = dict(SlurmManager._STATUSES)
    order = list(HpcJobStatus)
    code = {s: i for i, s in enumerate(order)}
    t = z3.String("t")
    e = z3.IntVal(code[HpcJobStatus.UNKNOWN])  # dict.get(status, UNKNOWN)
    for k, v in reversed(list(table.items())):
        e = z3.If(t == z3.StringVal(k), z3.IntVal(code[v]), e)
    ws = z3.Union(*[z3.Re(c) for c in " \t\n\r\x0b\x0c"])
    token = z3.InRe(t, z3.Plus(z3.Diff(z3.AllChar(z3.ReSort(z3.StringSort())), ws)))  # a str.split() field
    finished = list(TERMINAL) + list(TERMINAL.values())
    queries, violations, inconclusive = [], [], []

    def ask(name, *cons):
        s = z3.Solver()
        s.set("timeout", 20000)
        s.add(*cons)
        r = str(s.check())
        queries.append((name, r))
        return r, (s.model() if r == "sat" else None)

    # 1. nothing outside the finished vocabulary maps to COMPLETE
    r, m = ask("exists token t not in FINISHED with status(t) = COMPLETE", token, e == code[HpcJobStatus.COMPLETE],
               *[t != z3.StringVal(x) for x in finished])
    if r == "sat":
        tok = m[t].as_string()
        real = SlurmManager._get_statuses_from_output("77 " + tok + "\n")
        violations.append(dict(message="C18: a scheduler state outside the finished vocabulary is classed as complete",
                               assignment=dict(state=tok), context=dict(parsed=str(real)),
                               replayed=real.get("77") == HpcJobStatus.COMPLETE))
    elif r != "unsat":
        inconclusive.append("status table query 1: %s" % r)
    # 2. the non-finished SLURM states in particular (long and short names), each as its own query
    for st in list(NON_TERMINAL) + list(NON_TERMINAL.values()):
        r, m = ask("status(%s) = COMPLETE" % st, t == z3.StringVal(st), e == code[HpcJobStatus.COMPLETE])
        if r == "sat":
            real = SlurmManager._get_statuses_from_output("77 " + st + "\n")
            violations.append(dict(message="C18: a scheduler state outside the finished vocabulary is classed as complete",
                                   assignment=dict(state=st), context=dict(parsed=str(real)),
                                   replayed=real.get("77") == HpcJobStatus.COMPLETE))
        elif r != "unsat":
            inconclusive.append("status table query %s: %s" % (st, r))
    # 3. nothing maps to NONE (NONE means absent and counts as finished)
    r, m = ask("exists token t with status(t) = NONE", token, e == code[HpcJobStatus.NONE])
    if r == "sat":
        tok = m[t].as_string()
        real = SlurmManager._get_statuses_from_output("77 " + tok + "\n")
        violations.append(dict(message="C18: a reported scheduler state is classed as absent", assignment=dict(state=tok),
                               context=dict(parsed=str(real)), replayed=real.get("77") == HpcJobStatus.NONE))
    elif r != "unsat":
        inconclusive.append("status table query 3: %s" % r)
    # validation of the encoding against the real parser on the whole vocabulary
    for st in list(table) + finished + list(NON_TERMINAL):
        s = z3.Solver()
        s.add(t == z3.StringVal(st))
        s.check()
        enc = order[s.model().eval(e).as_long()]
        real = SlurmManager._get_statuses_from_output("5 %s\n" % st)["5"]
        if enc != real:
            inconclusive.append("encoding of _STATUSES disagrees with the real parser on %s" % st)
    return _result("E2-status-table", queries, round(time.time() - t0, 3), violations, inconclusive,
                   [dict(table={k: v.value for k, v in table.items()})],
                   ["jade.hpc.slurm_manager.SlurmManager._STATUSES", "jade.hpc.slurm_manager.SlurmManager._get_statuses_from_output"])


def q_sbatch_regex():
    bootstrap()
    import re._parser as sre_parse
    from jade.enums import Status
    from jade.hpc.slurm_manager import SlurmManager
    from jade.models import SubmissionGroup
    from world import world

    world.install()
    t0 = time.time()
    pat = SlurmManager._REGEX_SBATCH_OUTPUT.pattern
    queries, violations, inconclusive = [], [], []
    try:
        if SlurmManager._REGEX_SBATCH_OUTPUT.flags & ~32:  # only re.UNICODE tolerated
            raise Refuse("regex flags %s" % SlurmManager._REGEX_SBATCH_OUTPUT.flags)
        r_impl = _re_from_sre(sre_parse.parse(pat))
    except Refuse as e:
        return _result("E2-sbatch-regex", [], 0.0, [], ["translator refused pattern %r: %s" % (pat, e)], [], [])
    any_ = z3.Full(z3.ReSort(z3.StringSort()))
    impl = z3.Concat(any_, r_impl, any_)  # re.search
    spec = z3.Concat(any_, z3.Re("Submitted batch job "), z3.Plus(z3.Range("0", "9")), any_)
    s = z3.String("s")
    group = SubmissionGroup(**slurm_group("g0"))

    def real_accepts(text):
        world.KERNEL.update(popen=lambda argv, *a, **k: _Pipe(0, out=text), sleep=lambda x: None)
        try:
            st, jid, _ = SlurmManager(group.submitter_params.hpc_config).submit("/x/a.sh")
        finally:
            world.KERNEL.update(popen=None, sleep=None)
        return st == Status.GOOD, jid

    for name, a, b, msg in (
        ("accepted by the code, not by the specification", impl, spec,
         "C18: a submit response without 'Submitted batch job <digits>' is accepted as a submission"),
        ("accepted by the specification, not by the code", spec, impl,
         "C18: a well-formed submit response is treated as a failed submission"),
    ):
        sol = z3.Solver()
        sol.set("timeout", 30000)
        sol.add(z3.InRe(s, a), z3.Not(z3.InRe(s, b)))
        # keep the witness printable: ASCII only
        sol.add(z3.InRe(s, z3.Star(z3.Range(" ", "~"))))
        r = str(sol.check())
        queries.append((name, r))
        if r == "sat":
            text = sol.model()[s].as_string()
            ok, jid = real_accepts(text)
            violations.append(dict(message=msg, assignment=dict(response=text), context=dict(real_accepts=ok, job_id=jid),
                                   replayed=(ok if a is impl else not ok)))
        elif r != "unsat":
            inconclusive.append("regex inclusion %s: %s" % (name, r))
    # validate the translation on concrete strings through the real SlurmManager.submit
    from .k_slurm import RESPONSES

    for text, want in RESPONSES:
        sol = z3.Solver()
        sol.add(z3.InRe(z3.StringVal(text), impl))
        enc = str(sol.check()) == "sat"
        ok, jid = real_accepts(text)
        if enc != ok:
            inconclusive.append("regex translation disagrees with the real code on %r" % text)
    return _result("E2-sbatch-regex", queries, round(time.time() - t0, 3), violations, inconclusive, [dict(pattern=pat)],
                   ["jade.hpc.slurm_manager.SlurmManager._REGEX_SBATCH_OUTPUT", "jade.hpc.slurm_manager.SlurmManager.submit",
                    "jade.utils.run_command.run_command"])


def replay_direct(data):
    """--replay for E2 findings: re-runs the real code on the recorded witness."""
    bootstrap()
    from jade.hpc.common import HpcJobStatus
    from jade.hpc.slurm_manager import SlurmManager

    a = data["assignment"]
    vs = []
    if "state" in a:
        real = SlurmManager._get_statuses_from_output("77 " + a["state"] + "\n")
        if real.get("77") in (HpcJobStatus.COMPLETE, HpcJobStatus.NONE):
            vs.append(dict(message=data["message"], context=dict(parsed=str(real))))
    elif "response" in a:
        r = q_sbatch_regex()
        vs = [v for v in r["violations"] if v.get("replayed")]
    return "completed", vs
