"""C17: K-config (round trip + up-front rejection through the real CLI in the world) and
K-runtime (check_job_runtimes with symbolic estimate / walltime)."""
import copy
import json
import os

from jsym import SymTD
from .common import bootstrap, names, set_raw, slurm_group
from .h_common import setup_world

STRINGS = ["echo hi", "python run.py --x='a b' --y=\"c\\\"d\"", "cmd é ü 雪", "a\\b  c", "  padded  "]
NAMES = ["job_a", "7", "name-with.dots", "Ünï"]
HOOKS = ["bash setup.sh --flag", "echo 'quoted arg' \"dq\""]


PROFILES = [
    dict(command="echo hi"),
    dict(command="python run.py --x='a b' --y=\"c\\\"d\"", name="job_a", estimated_run_minutes=0, cancel_on_blocking_job_failure=True,
         append_job_name=True),
    dict(command="cmd é ü 雪", estimated_run_minutes=240, ext={"k": [1, {"z": None}], "s": "v"}, append_job_name=True,
         append_output_dir=True),
    dict(command="a\\b  c", name="Ünï.with-dots"),
    dict(command="  padded  ", name="7", estimated_run_minutes=30, ext={"e": 1}, cancel_on_blocking_job_failure=True),
]
HOOK_SETS = [
    {},
    dict(setup_command=HOOKS[0], teardown_command=HOOKS[1], node_setup_command=HOOKS[1], node_teardown_command=HOOKS[0]),
    dict(setup_command=HOOKS[1], node_teardown_command=HOOKS[1]),
    dict(teardown_command=HOOKS[0], node_setup_command=HOOKS[0]),
]


def _build(ex, N, G, profiles=(0, 1, 2, 3)):
    from jade.extensions.generic_command import GenericCommandConfiguration, GenericCommandParameters

    n = 1 + ex.choice("njobs", N)
    g = 1 + ex.choice("ngroups", G)
    groups = [slurm_group("grp%d" % k, account="acct%d" % k, per_node_batch_size=[500, 2][k % 2], max_nodes=3) for k in range(g)]
    gp = profiles[ex.choice("group_profile", len(profiles))]
    for k, grp in enumerate(groups):  # optional submitter parameters: defaults / explicitly null / explicitly set (last group differs)
        sp = grp["submitter_params"]
        if gp == 1:
            sp.update(resource_monitor_interval=None, num_parallel_processes_per_node=None, singularity_params=None)
        elif gp == 3:  # monitor interval below the poll interval: submit-jobs lowers the poll interval of every group alike
            sp.update(resource_monitor_interval=3, poll_interval=10, resource_monitor_type="aggregation")
        elif gp == 2:
            sp.update(resource_monitor_interval=7, num_parallel_processes_per_node=2 + k, try_add_blocked_jobs=False, verbose=True,
                      node_setup_script="setup.sh" if k == g - 1 else None)
            sp["hpc_config"]["hpc"].update(partition="debug" if k == g - 1 else None, mem="0", nodes=2)
    kw = HOOK_SETS[ex.choice("hooks", len(HOOK_SETS))]
    config = GenericCommandConfiguration(submission_groups=groups, **kw)
    used = set()
    for i in range(n):
        cand = [k for k, p in enumerate(PROFILES) if p.get("name") not in used or p.get("name") is None]
        d = copy.deepcopy(PROFILES[cand[ex.choice("profile%d" % i, len(cand))]])
        if d.get("name"):
            used.add(d["name"])
        d["submission_group"] = "grp%d" % ex.choice("grp%d" % i, g)
        if i > 0:
            b = ex.choice("blocked%d" % i, 3)
            prev = config.list_jobs()[i - 1]
            if b == 1:
                d["blocked_by"] = {prev.name}
            elif b == 2:  # blockers may be given as integers (job ids) when the blocker's name is derived
                d["blocked_by"] = [prev.job_id] if prev.model.name is None else [prev.name]
        config.add_job(GenericCommandParameters(**d))
    return config, kw, n, g


def k_roundtrip(N=3, G=3):
    bootstrap()
    from jade.jobs.job_configuration_factory import create_config_from_file
    from .common import fresh_dir

    def harness(ex):
        config, kw, n, g = _build(ex, N, G)
        d = fresh_dir("krt")
        path = os.path.join(d, "config.json")
        config.dump(path)
        loaded = create_config_from_file(path)
        a, b = config.serialize(), loaded.serialize()
        ex.check(json.dumps(a, sort_keys=True, default=str) == json.dumps(b, sort_keys=True, default=str),
                 "C17: configuration differs after writing and loading", keys=[k for k in a if a.get(k) != b.get(k)])
        ex.check([j.name for j in config.iter_jobs()] == [j.name for j in loaded.iter_jobs()], "C17: job order changed by the round trip")
        for j1, j2 in zip(config.iter_jobs(), loaded.iter_jobs()):
            ex.check((j1.command, j1.get_blocking_jobs(), j1.cancel_on_blocking_job_failure, j1.submission_group,
                      j1.estimated_run_minutes, j1.append_job_name, j1.append_output_dir, j1.ext) ==
                     (j2.command, j2.get_blocking_jobs(), j2.cancel_on_blocking_job_failure, j2.submission_group,
                      j2.estimated_run_minutes, j2.append_job_name, j2.append_output_dir, j2.ext),
                     "C17: job fields changed by the round trip", job=j1.name)
        ex.check((loaded.setup_command, loaded.teardown_command, loaded.node_setup_command, loaded.node_teardown_command) ==
                 (kw.get("setup_command"), kw.get("teardown_command"), kw.get("node_setup_command"), kw.get("node_teardown_command")),
                 "C17: lifecycle commands changed by the round trip")
        ex.check([x.dict() for x in loaded.submission_groups] == [x.dict() for x in config.submission_groups],
                 "C17: submission groups changed by the round trip")
        from jade.models import SubmitterParams

        for g1, g2 in zip(config.submission_groups, loaded.submission_groups):
            for f in SubmitterParams.__fields__:  # field by field: dict() may hide a dropped field on both sides
                ex.check(getattr(g1.submitter_params, f) == getattr(g2.submitter_params, f) and g1.name == g2.name,
                         "C17: a submitter parameter of a group changed by the round trip", group=g1.name, field=f,
                         before=str(getattr(g1.submitter_params, f))[:80], after=str(getattr(g2.submitter_params, f))[:80])
        # a second generation (file -> object -> file) is byte-identical
        p2 = os.path.join(d, "config2.json")
        loaded.dump(p2)
        ex.check(open(path).read() == open(p2).read(), "C17: second dump differs from the first")
        ex.reached()

    return harness


def k_config(N=2, G=2):
    def harness(ex):
        w = setup_world(ex)
        try:
            _run(ex, w)
        finally:
            w.close()

    def _run(ex, w):
        w.job_command_handler = lambda w_, argv, env: (w_.record("hook", argv=argv, rc=0, env={}) and 0, "", "")
        config, kw, n, g = _build(ex, N, G, profiles=(0, 3))
        path = os.path.join(w.root, "config.json")
        config.dump(path)
        # ---- acceptance / rejection through the real `jade submit-jobs`
        data = json.load(open(path))
        inv = ex.choice("invalidity", 9)
        label = "valid"
        if inv == 1:
            data["jobs"][ex.choice("bad_dep_job", len(data["jobs"]))]["blocked_by"] = ["no_such_job"]
            label = "dependency on a nonexistent job"
        elif inv == 2:
            if len(data["jobs"]) < 2:
                return
            data["jobs"][1]["name"] = data["jobs"][0]["name"] if data["jobs"][0]["name"] is not None else str(data["jobs"][0]["job_id"])
            label = "duplicate job names"
        elif inv == 3:
            data["jobs"][ex.choice("bad_group_job", len(data["jobs"]))]["submission_group"] = "nonexistent_group"
            label = "job with an unknown submission group"
        elif inv == 4:
            if g < 2:
                return
            vals = [None, 3, 7]  # unset / set, in either group, in either order
            v0, v1 = vals[ex.choice("max_nodes_g0", 3)], vals[ex.choice("max_nodes_g1", 3)]
            data["submission_groups"][0]["submitter_params"]["max_nodes"] = v0
            data["submission_groups"][1]["submitter_params"]["max_nodes"] = v1
            if v0 == v1:
                inv = 0
            else:
                label = "max_nodes differs between groups (%s, %s)" % (v0, v1)
        elif inv == 5:
            if g < 2 or data["submission_groups"][0]["submitter_params"].get("resource_monitor_interval") == 3:
                return  # (with a monitor interval below it, submit-jobs lowers every group's poll interval: not an invalid input)
            data["submission_groups"][1]["submitter_params"]["poll_interval"] = 33
            label = "poll_interval differs between groups"
        elif inv == 6:
            if g < 2:
                return
            data["submission_groups"][1]["name"] = data["submission_groups"][0]["name"]
            label = "duplicate group names"
        elif inv == 7:
            data["jobs"][ex.choice("bad_est_job", len(data["jobs"]))]["estimated_run_minutes"] = 241  # walltime is 4:00:00
            label = "estimated runtime above the walltime"
        elif inv == 8:
            if g < 2:
                return
            data["submission_groups"][1]["submitter_params"]["hpc_config"] = dict(hpc_type="local", hpc={})
            label = "hpc_type differs between groups"
        p2 = os.path.join(w.root, "config2.json")
        json.dump(data, open(p2, "w"))
        out = os.path.join(w.root, "out")
        r = w.user(["jade", "submit-jobs", p2, "-o", out])
        sb = w.events("sbatch")
        if inv == 0:
            ex.check(r.rc == 0 and len(sb) >= 1, "C17: valid configuration rejected", rc=r.rc, err="".join(r.err)[-400:])
        else:
            ex.check(r.rc != 0, "C17: invalid configuration accepted", invalidity=label)
            ex.check(not sb and not w.events("launch"), "C17: batch handed to the HPC before the invalid configuration was rejected",
                     invalidity=label)
            err = "".join(r.err)
            ex.check("InvalidConfiguration" in err or "ValidationError" in err or "validation error" in err,
                     "C17: invalid configuration not rejected with a configuration error", invalidity=label, err=err[-300:])
        ex.reached()

    return harness


def k_runtime(N=2, G=2):
    bootstrap()
    import jade.jobs.job_configuration as jc
    from jade.exceptions import InvalidConfiguration
    from jade.models import SubmitterParams
    from .common import make_config

    jc.timedelta = SymTD
    SubmitterParams.get_wall_time = lambda self: self.__dict__["_verif_wall"]

    def harness(ex):
        groups = [slurm_group("g%d" % k) for k in range(G)]
        nm = names(N)
        grp_of = [ex.choice("g%d" % i, G) for i in range(N)]
        config = make_config([dict(name=nm[i], submission_group="g%d" % grp_of[i]) for i in range(N)], groups)
        wall = [ex.int("wall%d" % k, 0, 4000000) for k in range(G)]
        for k, grp in enumerate(config.submission_groups):
            set_raw(grp.submitter_params, _verif_wall=SymTD(seconds=wall[k]))
        est = []
        for i in range(N):
            if ex.flag("has_est%d" % i):
                e = ex.int("est%d" % i, 0, 100000)
                set_raw(config.get_job(nm[i])._model, estimated_run_minutes=e)
                est.append(e)
            else:
                est.append(None)
        try:
            config.check_job_runtimes()
            rejected = False
        except InvalidConfiguration:
            rejected = True
        too_long = [est[i] * 60 > wall[grp_of[i]] for i in range(N) if est[i] is not None]
        want = False
        for t in too_long:
            want = t | want
        ex.check(want == rejected if not isinstance(want, bool) else want == rejected,
                 "C17: runtime check does not reject exactly the configurations with an estimate above the walltime",
                 rejected=rejected)
        ex.reached()

    return harness


def k_walltime():
    """SubmitterParams.get_wall_time / _to_timedelta on walltime strings H:MM:SS (hours with 1-3 digits, zero padded or not),
    and the consequence for check_job_runtimes: an estimate is rejected iff it exceeds that walltime."""
    bootstrap()
    from jade.exceptions import InvalidConfiguration
    from jade.models import SubmissionGroup
    from .common import make_config

    HOURS = [0, 1, 4, 9, 10, 12, 19, 23, 24, 48, 100, 240]
    MINS = [0, 5, 30, 59]
    SECS = [0, 1, 59]

    def harness(ex):
        h = HOURS[ex.choice("hours", len(HOURS))]
        m = MINS[ex.choice("minutes", len(MINS))]
        sec = SECS[ex.choice("seconds", len(SECS))]
        ex.assume(h + m + sec > 0)
        text = ("%02d:%02d:%02d" if ex.flag("zero_padded_hours") else "%d:%02d:%02d") % (h, m, sec)
        grp = SubmissionGroup(**slurm_group("g0", walltime=text))
        want = h * 3600 + m * 60 + sec
        got = grp.submitter_params.get_wall_time().total_seconds()
        ex.check(got == want, "C07/C17: walltime string parsed to another duration", walltime=text, got=got, want=want)
        # estimates just below / at / just above the walltime (whole minutes)
        wm = want // 60
        for est, ok in ((wm, True), (wm + 1, False)) + (((wm - 1, True),) if wm >= 1 else ()):
            config = make_config([dict(name="j0", submission_group="g0", estimated_run_minutes=est)], [slurm_group("g0", walltime=text)])
            try:
                config.check_job_runtimes()
                accepted = True
            except InvalidConfiguration:
                accepted = False
            want_ok = est * 60 <= want
            ex.check(accepted == want_ok, "C17: estimate compared with a wrong walltime", walltime=text, estimate=est, accepted=accepted)
        ex.reached()

    return harness
