"""H-cancel (C14): `jade cancel-jobs` injected at any scheduler step of a running
submission, followed by any short sequence of later commands."""
import json
import os

from .common import names, slurm_group
from .h_common import SHAPES, cluster_status, enabled_events, fire, setup_world, write_config
from .h_submit import StatusObserver


def h_cancel(shapes=("indep3", "chain3"), bss=(1,), maxns=(1, None), max_steps=40, followups=2, complete_flag=(True,),
             time_based=(False,)):
    def harness(ex):
        from world.world import Hang

        w = setup_world(ex)
        try:
            _run(ex, w)
        except Hang as e:
            ex.check(False, "C14: a JADE process did not terminate", what=str(e)[:200], fatal=True)
        finally:
            w.close()

    def _run(ex, w):
        shape = shapes[ex.choice("shape", len(shapes))]
        N, blockers = SHAPES[shape]
        nm = names(N)
        bs = bss[ex.choice("bs", len(bss))]
        maxn = maxns[ex.choice("maxn", len(maxns))]
        tb = time_based[ex.choice("time_based", len(time_based))]
        jobs = [dict(name=nm[i], command="job " + nm[i], blocked_by={nm[b] for b in blockers.get(i, [])}) for i in range(N)]
        if tb:  # one job per batch by time: estimates of 6 minutes with a walltime of 10
            for j in jobs:
                j["estimated_run_minutes"] = 6
            grp = slurm_group("default", time_based_batching=True, num_parallel_processes_per_node=1, walltime="0:10:00",
                              max_nodes=maxn)
        else:
            grp = slurm_group("default", per_node_batch_size=bs, max_nodes=maxn)
        cfg = write_config(w, jobs, [grp])
        out = os.path.join(w.root, "out")
        obs = StatusObserver(ex, out, N)
        w.unlock_observer = obs
        p = w.user(["jade", "submit-jobs", cfg, "-o", out])
        ex.check(p.rc == 0, "C14: submit-jobs failed", err="".join(p.err)[-300:])
        canceled = False
        completion_steps = 0
        rows_before, active_before, ids_before = None, None, None
        for step in range(max_steps):
            evs = enabled_events(w)
            c = cluster_status(out)
            if c is None:
                ex.check(False, "C14: submission wedged")
                return
            if not canceled and not c.is_complete() and ex.flag("cancel_at_%d" % step):
                rows_before = sorted(w.result_names(out))
                active_before = sorted(b for b, v in w.batches.items() if v["state"] in ("PENDING", "RUNNING"))
                ids_before = sorted(c.job_status.hpc_job_ids)
                nsb = len(w.events("sbatch"))
                argv = ["jade", "cancel-jobs", out]
                if not complete_flag[ex.choice("complete", len(complete_flag))]:
                    argv.append("--no-complete")
                else:
                    completion_steps += 1
                r = w.user(argv)
                canceled = True
                ex.check(r.rc in (0, 1), "C14: cancel-jobs crashed", rc=r.rc, err="".join(r.err)[-400:])
                continue
            if not evs:
                if c.is_complete():
                    break
                if canceled:
                    break
                r = w.user(["jade", "try-submit-jobs", out])
                continue
            fire(w, evs[ex.choice("s%d" % step, len(evs))], lambda n: 0)
        if not canceled:
            return  # covered by H-submit
        # ---- any later commands
        for k in range(followups):
            cmd = ex.choice("follow%d" % k, 4)
            if cmd == 3:
                # resubmit-jobs on the canceled submission (refused while incomplete; once complete it must not hand anything out)
                w.unlock_observer = None  # (C09's monotonicity clauses hold between resubmissions only)
                w.user(["jade", "resubmit-jobs", out])
                obs.prev = None
                w.unlock_observer = obs
            elif cmd == 1:
                w.user(["jade", "try-submit-jobs", out])
                completion_steps += 1
            elif cmd == 2:
                w.user(["jade", "show-status", "-o", out, "-n"])
                completion_steps += 1
        # leftover node events (nodes that were not known to JADE cannot exist; all active ones were cancelled)
        for step in range(max_steps, max_steps + 10):
            evs = enabled_events(w)
            if not evs:
                break
            fire(w, evs[ex.choice("s%d" % step, len(evs))], lambda n: 0)
        # ---- oracles
        ex.check(obs.canceled_seq is not None, "C14: canceled flag never became visible")
        if obs.canceled_seq is None:
            return
        late = [s for s in w.events("sbatch") if s["seq"] > obs.canceled_seq]
        ex.check(not late, "C14: batch handed to the HPC after the submission was marked canceled",
                 jobs=[s["jobs"] for s in late], by=[s["proc"] for s in late])
        sc = {e["id"] for e in w.events("scancel")}
        ex.check(set(ids_before) <= sc, "C14: an active batch id was not asked to be canceled", ids=ids_before, scancel=sorted(sc))
        ex.check(set(active_before) <= sc, "C14: a batch active on the HPC was not asked to be canceled", active=active_before,
                 scancel=sorted(sc))
        rows_after = sorted(w.result_names(out))
        ex.check(all(rows_after.count(n) >= rows_before.count(n) for n in rows_before),
                 "C14: result recorded before the cancel was lost", before=rows_before, after=rows_after)
        launches_after = [l for l in w.events("launch") if l["seq"] > obs.canceled_seq]
        ex.check(not launches_after, "C14: job started after the submission was canceled", jobs=[l["job"] for l in launches_after])
        c = cluster_status(out)
        if c is None:
            ex.check(False, "C14: submission wedged after cancel")
            return
        if c.is_complete():
            data = json.load(open(os.path.join(out, "results.json")))
            got = sorted(r["name"] for r in data["results"])
            ex.check(got == sorted(set(rows_after)), "C14: results summary does not hold exactly the recorded rows", got=got,
                     rows=rows_after)
            ex.check(sorted(data["missing_jobs"]) == sorted(set(nm) - set(got)), "C14: jobs that never ran are not reported missing",
                     missing=data["missing_jobs"])
        else:
            ex.check(completion_steps == 0, "C14: completion step after cancel did not complete the submission",
                     steps=completion_steps)
        ex.reached()

    return harness
