"""C20 kernels: K-stats (ResourceMonitorAggregator over symbolic reals), K-events
(real event logging -> JobRunner._aggregate_events -> EventsSummary), K-tally
(Result.is_* / JobSubmitter._build_results / ResultsSummary over symbolic return codes)."""
import json
import logging
import os
import shutil
import types

from jsym import is_sym, sym_and, sym_or
from .common import bootstrap, fresh_dir, names


def k_stats(samples=3, process=True, wide=False):
    bootstrap()
    import jade.resource_monitor as rm
    from jade.models.submitter_params import ResourceMonitorStats

    W = {}
    rm.ResourceMonitorAggregator._get_stats = lambda self: W["sys"]()
    rm.ResourceMonitorAggregator._get_process_stats = lambda self, pids: W["proc"](pids)
    rm.dump_data = lambda data, filename, **kw: W["dumps"].append((data, str(filename)))

    def harness(ex):
        k = 1 + ex.choice("nsamples", samples)
        with_proc = process and ex.flag("process_stats")
        if wide:
            sys_samples = {"CPU": {"cpu_percent": []}, "Memory": {"percent": [], "available": []}}
            proc_samples = {"j0": {"rss": [], "cpu_percent": []}, "j1": {"rss": []}}
        else:
            sys_samples = {"CPU": {"cpu_percent": []}}
            proc_samples = {"j0": {"rss": []}}
        state = dict(i=-1)

        def sys_stats():
            i = state["i"]
            cur = {}
            for t, d in sys_samples.items():
                cur[t] = {}
                for n, lst in d.items():
                    if i < 0:
                        cur[t][n] = 0.0  # constructor call: only the names matter
                    else:
                        v = ex.real("s_%s_%s_%d" % (t, n, i), 0, 1000000)
                        lst.append(v)
                        cur[t][n] = v
            return cur

        def proc_stats(pids):
            i = state["i"]
            cur = {}
            for name in proc_samples:
                if name not in pids:
                    continue
                if ex.flag("alive_%s_%d" % (name, i)):
                    cur[name] = {}
                    for n, lst in proc_samples[name].items():
                        v = ex.real("p_%s_%s_%d" % (name, n, i), 0, 1000000)
                        lst.append(v)
                        cur[name][n] = v
            return cur

        W.update(sys=sys_stats, proc=proc_stats, dumps=[])
        agg = rm.ResourceMonitorAggregator("batch_1_0", ResourceMonitorStats(cpu=True, memory=True, disk=False, network=False,
                                                                             process=with_proc))
        for i in range(k):
            state["i"] = i
            agg.update_resource_stats(ids={"j0": 11, "j1": 12})
        agg.finalize("/nonexistent-out")
        ex.check(len(W["dumps"]) == 1, "C20: resource statistics not written exactly once", n=len(W["dumps"]))
        if not W["dumps"]:
            return
        data, filename = W["dumps"][0]
        ex.check(filename.endswith("stats/batch_1_0_resource_stats.json"), "C20: statistics written to another file", file=filename)
        by_type = {d["type"]: d for d in data if d["type"] != "Process"}
        by_proc = {d["name"]: d for d in data if d["type"] == "Process"}

        def verify(rep_min, rep_max, rep_avg, lst, what):
            ex.check(sym_and(*[rep_min <= s for s in lst]) & sym_or(*[rep_min == s for s in lst]),
                     "C20: reported minimum is not the minimum of the samples", stat=what, n=len(lst))
            ex.check(sym_and(*[rep_max >= s for s in lst]) & sym_or(*[rep_max == s for s in lst]),
                     "C20: reported maximum is not the maximum of the samples", stat=what, n=len(lst))
            ex.check(rep_avg * len(lst) == sum(lst), "C20: reported average is not the mean of the samples", stat=what, n=len(lst))

        for t, d in sys_samples.items():
            ex.check(t in by_type, "C20: statistic type missing from the summary", type=t)
            for n, lst in d.items():
                verify(by_type[t]["minimum"][n], by_type[t]["maximum"][n], by_type[t]["average"][n], lst, "%s.%s" % (t, n))
        for name, d in proc_samples.items():
            n_s = len(d["rss"])
            if not with_proc:
                n_s = 0
            if not with_proc or n_s == 0:
                ex.check(name not in by_proc, "C20: process summary without samples", name=name)
                continue
            ex.check(name in by_proc and by_proc[name]["samples"] == n_s, "C20: per-process sample count wrong", name=name)
            for n, lst in d.items():
                verify(by_proc[name]["minimum"][n], by_proc[name]["maximum"][n], by_proc[name]["average"][n], lst,
                       "%s.%s" % (name, n))
        ex.reached()

    return harness


STAMPS = ["2026-01-01 10:00:00", "2026-01-01 10:00:00.000001", "2026-01-01 10:00:00.500000", "2026-01-01 09:59:59.999999",
          "2026-01-01 10:00:01"]
DATA = [dict(), dict(job_id="17"), dict(nested=dict(a=[1, 2, {"b": None}], s="x\ny \"q\" é"), n=3.5)]


def k_events(max_events=3, files=2, nstamps=5, ndata=3):
    bootstrap()
    from jade.events import EventsSummary, StructuredLogEvent
    from jade.jobs.job_runner import JobRunner
    from jade.loggers import close_event_logging, log_event, setup_event_logging

    def tree(d):
        out = {}
        for root, _, fs in os.walk(d):
            for f in fs:
                p = os.path.join(root, f)
                out[os.path.relpath(p, d)] = open(p, "rb").read()
        return out

    def harness(ex):
        out = fresh_dir("kev")
        os.makedirs(os.path.join(out, "job-outputs", "j0"))
        n = ex.choice("nevents", max_events + 1)
        logged = []
        per_file = {}
        for i in range(n):
            name = ["alpha", "beta"][ex.choice("name%d" % i, 2)]
            f = ex.choice("file%d" % i, files + 1)  # the last index = a job's own events.log (aggregated by the runner)
            ts = STAMPS[ex.choice("ts%d" % i, nstamps)]
            data = DATA[::-1][ex.choice("data%d" % i, ndata)]
            ev = StructuredLogEvent(source="src%d" % i, category="Cat", name=name, message="m%d" % i, timestamp=ts, **data)
            logged.append(dict(name=name, timestamp=ts, source="src%d" % i, message="m%d" % i, data=data, category="Cat"))
            per_file.setdefault(f, []).append(ev)
        logging.disable(logging.NOTSET)
        try:
            for f, evs in sorted(per_file.items()):
                fn = (os.path.join(out, "job-outputs", "j0", "events.log") if f == files
                      else os.path.join(out, "run_jobs_batch_%d_0_events.log" % f))
                setup_event_logging(fn, mode="a")
                for ev in evs:
                    log_event(ev)
                close_event_logging()
            # the node's runner folds job event files into its own file
            fake = types.SimpleNamespace(_event_filename=os.path.join(out, "run_jobs_batch_0_0_events.log"), _output=out,
                                         _config=types.SimpleNamespace(iter_jobs=lambda: [types.SimpleNamespace(name="j0")]))
            setup_event_logging(fake._event_filename, mode="a")
            JobRunner._aggregate_events(fake)
            ex.check(not os.path.exists(os.path.join(out, "job-outputs", "j0", "events.log")),
                     "C20: job event file not consumed by the node aggregation")
            # in local mode the same process goes on logging after the runner's aggregation (completion events)
            if ex.flag("event_after_aggregation"):
                ev = StructuredLogEvent(source="late", category="Cat", name="alpha", message="after", timestamp=STAMPS[-1], n=1)
                logged.append(dict(name="alpha", timestamp=STAMPS[-1], source="late", message="after", data=dict(n=1), category="Cat"))
                log_event(ev)
                close_event_logging()
        finally:
            logging.disable(logging.CRITICAL)
            lg = logging.getLogger("_jade_event")
            for h in list(lg.handlers):
                h.close()
                lg.removeHandler(h)
        summ = EventsSummary(out)
        before = tree(out)
        for name in ("alpha", "beta"):
            got = summ.list_events(name)
            want = [e for e in logged if e["name"] == name]
            ex.check(len(got) == len(want), "C20: event lost or duplicated in the consolidated summary", name=name,
                     got=len(got), want=len(want))
            key = lambda d: json.dumps(d, sort_keys=True)  # noqa: E731
            g = sorted(key(dict(name=e.name, timestamp=e.timestamp, source=e.source, message=e.message, data=e.data,
                                category=e.category)) for e in got)
            ex.check(g == sorted(key(e) for e in want), "C20: event fields changed by consolidation", name=name)
            ts = [e.timestamp for e in got]
            ex.check(ts == sorted(ts), "C20: events of one name not ordered by time", name=name, stamps=ts)
        # consolidating again changes nothing and yields the same events
        summ2 = EventsSummary(out)
        ex.check(tree(out) == before, "C20: consolidating again changed files")
        for name in ("alpha", "beta"):
            a = [str(e) for e in summ.list_events(name)]
            b = [str(e) for e in summ2.list_events(name)]
            ex.check(a == b, "C20: consolidating again changed the events", name=name)
        ex.reached()

    return harness


def k_tally(N=3):
    bootstrap()
    from jade.jobs.job_submitter import JobSubmitter
    from jade.result import Result, ResultsSummary
    from .common import make_config, slurm_group

    def harness(ex):
        nm = names(N)
        results = []
        have = []
        for i in range(N):
            if ex.flag("has%d" % i):
                canceled = ex.flag("canceled%d" % i)
                rc = ex.int("rc%d" % i, -1000, 1000)
                if canceled:
                    ex.assume(rc != 0)  # producible: AsyncCliCommand.cancel / _cancel_job record return code 1
                results.append(Result(nm[i], rc, "canceled" if canceled else "finished", 1.0, 100.0, "55"))
                have.append(i)
        sub = JobSubmitter.__new__(JobSubmitter)
        sub._results = results
        missing = [nm[i] for i in range(N) if i not in have]
        built = sub._build_results(missing)
        s = built["summary"]
        classes = []
        for r in results:
            c = [bool(r.is_successful()), bool(r.is_failed()), bool(r.is_canceled())]
            ex.check(sum(c) == 1, "C20: result is not in exactly one of successful/failed/canceled", classes=c)
            classes.append(c)
            ex.check(c[0] == (bool(r.return_code == 0) and r.status == "finished"), "C03/C20: successful misclassified")
            ex.check(c[2] == (r.status == "canceled"), "C03/C20: canceled misclassified")
        ex.check(s["num_successful"] == sum(c[0] for c in classes) and s["num_failed"] == sum(c[1] for c in classes)
                 and s["num_canceled"] == sum(c[2] for c in classes) and s["num_missing"] == len(missing),
                 "C20: summary tallies differ from the per-result classes", summary=s)
        ex.check(s["num_successful"] + s["num_failed"] + s["num_canceled"] + s["num_missing"] == N,
                 "C20: tallies do not add up to the number of jobs", summary=s)
        ex.check([d["name"] for d in built["results"]] == [r.name for r in results], "C03/C20: serialized results differ")
        # the same through the files: write_results_summary -> ResultsSummary (return codes realised here,
        # over {0, 1, -9, 255} only: each realised value is one fork)
        for r in results:
            ex.assume(sym_or(*[r.return_code == v for v in (0, 1, -9, 255)]))
        out = fresh_dir("ktally")
        sub._output = out
        sub._config = make_config([dict(name=n) for n in nm], [slurm_group("default")])
        concrete = [Result(r.name, ex.value(r.return_code), r.status, r.exec_time_s, r.completion_time, r.hpc_job_id) for r in results]
        sub._results = concrete
        sub.write_results_summary("results.json", missing)
        summ = ResultsSummary(out)
        by = summ.get_results_by_type()
        ex.check(len(by["successful"]) == s["num_successful"] and len(by["failed"]) == s["num_failed"]
                 and len(by["canceled"]) == s["num_canceled"], "C20: ResultsSummary classes differ from the summary block")
        ex.check(sorted(summ.missing_jobs) == sorted(missing), "C20: missing jobs differ")
        import io
        import contextlib

        buf = io.StringIO()
        with contextlib.redirect_stdout(buf):
            summ.show_results()
        txt = buf.getvalue()
        for label, key in (("Num successful", "num_successful"), ("Num failed", "num_failed"), ("Num canceled", "num_canceled"),
                           ("Num missing", "num_missing")):
            ex.check("%s: %d\n" % (label, s[key]) in txt, "C20: show_results prints another tally", label=label)
        ex.check("Total: %d\n" % N in txt, "C20: show_results total is not the number of jobs")
        ex.reached()

    return harness
