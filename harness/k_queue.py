"""K-queue: the node-level gate.  Real JobQueue.run_jobs/run/wait/submit/process_queue/
_check_completions/_run_job/is_full driving real AsyncCliCommand objects (run, is_complete,
_complete, cancel) over a stubbed Popen; which processes have exited at each poll and
their exit codes are solver variables.  Serves C02 C04 C06 (and C01's 'started at most once')."""
import os

from jsym import PathBudget
from .common import ProcProtocol, bootstrap, fresh_dir, names


class _Stop(Exception):
    pass


def k_queue(N=3, shapes=None, max_polls=None, depths=None, manager=True):
    from world import world

    world.install()
    bootstrap()
    import jade.jobs.async_cli_command as acc
    from jade.extensions.generic_command import GenericCommandParameters
    from jade.jobs.job_queue import JobQueue

    shapes = None if shapes is None else {tuple(x) for x in shapes}
    W = {}
    from jade.jobs.results_aggregator import ResultsAggregator  # patched on the class: independent of import style

    ResultsAggregator.append = classmethod(lambda cls, output, result, batch_id=None: W["results"].append(result))

    class Pipe(ProcProtocol):
        def __init__(self, name):
            self.name = name
            self.returncode = None
            self.pid = 1000 + len(W["launched"])

        def poll(self):
            return self.returncode

    def harness(ex):
        nm = names(N)
        blockers = {}
        for i in range(N):
            b = set()
            for j in range(N):
                if i != j and (shapes is None or (i, j) in shapes) and ex.flag("b%d_%d" % (i, j)):
                    b.add(j)
            blockers[i] = b
        # acyclic only: a dependency cycle on one node waits for ever (cycles belong to C12 / HPC mode)
        order, left = [], set(range(N))
        while left:
            ready = [i for i in sorted(left) if not (blockers[i] & left)]
            if not ready:
                break
            order += ready
            left -= set(ready)
        ex.assume(not left)
        flags = [bool(blockers[i]) and ex.flag("cf%d" % i) for i in range(N)]
        depth = (depths or list(range(1, N + 1)))[ex.choice("depth", len(depths or range(N)))]
        out = fresh_dir("kq")
        os.makedirs(os.path.join(out, "job-stdio"))
        W.update(results=[], launched=[], pipes={}, polls=0)
        jobs = []
        for i in range(N):
            p = GenericCommandParameters(name=nm[i], command="job " + nm[i], blocked_by={nm[b] for b in blockers[i]},
                                         cancel_on_blocking_job_failure=flags[i])
            jobs.append(acc.AsyncCliCommand(p, "job " + nm[i], out, 1, manager, "4242"))
        rc = {}
        pending_blockers = []  # (job, blockers never started when the job was started): they must be canceled ones

        def popen(argv, *a, **kw):
            name = kw["env"]["JADE_JOB_NAME"]
            have = {r.name for r in W["results"]}
            i = nm.index(name)
            for b in blockers[i]:
                if manager:
                    ex.check(nm[b] in have, "C02: job started before its blocker had a recorded outcome", job=name, blocker=nm[b])
                elif nm[b] in W["pipes"]:  # (a node that is not the batch's manager records nothing: judge by the processes)
                    ex.check(W["pipes"][nm[b]].returncode is not None, "C02: job started while its blocker was still running",
                             job=name, blocker=nm[b])
                else:
                    pending_blockers.append((name, b))
            ex.check(name not in W["launched"], "C01: job command started more than once", job=name)
            ex.check(name not in {r.name for r in W["results"]}, "C04: job with a recorded (canceled) outcome was started", job=name)
            W["launched"].append(name)
            running = [n for n, p in W["pipes"].items() if p.returncode is None]
            ex.check(len(running) + 1 <= depth, "C06: more job processes than the queue depth", running=len(running) + 1, depth=depth)
            p = Pipe(name)
            W["pipes"][name] = p
            return p

        limit = max_polls or (3 * N + 4)

        def sleep(s):
            W["polls"] += 1
            if W["polls"] > limit:
                raise _Stop()
            running = [n for n in nm if n in W["pipes"] and W["pipes"][n].returncode is None]
            if not running:
                return
            k = W["polls"]
            exits = [ex.flag("exit_%s_%d" % (n, k)) for n in running]
            ex.assume(any(exits))  # something happens between two polls (otherwise the poll is a no-op)
            for n, e in zip(running, exits):
                if e:
                    rc[n] = ex.int("rc_" + n, -255, 255)
                    W["pipes"][n].returncode = rc[n]

        world.KERNEL.update(popen=popen, sleep=sleep, now=lambda: 1000.0 + W["polls"])
        stopped = False
        try:
            JobQueue.run_jobs(jobs, max_queue_depth=depth, poll_interval=1, monitor_interval=None)
        except _Stop:
            stopped = True
        except PathBudget:
            raise
        except Exception as e:
            ex.check(False, "C02/C04: job queue crashed", error="%s: %s" % (type(e).__name__, str(e)[:200]))
            stopped = True
        finally:
            world.KERNEL.update(popen=None, sleep=None, now=None)
            for j in jobs:
                for fp in (j._stdout_fp, j._stderr_fp):
                    if fp is not None and not fp.closed:
                        fp.close()
                j._is_pending = False
        ex.check(not stopped, "C02/C04/C05: node queue did not drain although every started process exited", polls=W["polls"])
        if stopped:
            return
        # ---- reference: evaluate the DAG in topological order
        res = {}
        for r in W["results"]:
            ex.check(r.name not in res, "C01/C03: two results recorded for one job", job=r.name)
            res[r.name] = r
        want = {}
        for i in order:
            bad = False
            for b in blockers[i]:
                bad = bad or want[b] in ("failed", "canceled")
            if flags[i] and bad:
                want[i] = "canceled"
            else:
                want[i] = None  # runs; successful/failed by its own exit code
                if nm[i] in rc:
                    want[i] = "failed" if ex.value(rc[nm[i]] != 0) else "successful"
        if not manager:
            ex.check(not W["results"], "C03: a node that is not the batch's manager recorded results", rows=[r.name for r in W["results"]])
            for i in range(N):
                n = nm[i]
                if want[i] == "canceled":
                    ex.check(n not in W["launched"], "C04: canceled job was started (node that is not the batch's manager)", job=n)
                else:
                    ex.check(W["launched"].count(n) == 1, "C01/C04: job that is not canceled did not run exactly once (non-manager node)",
                             job=n, times=W["launched"].count(n))
            for name, b in pending_blockers:
                ex.check(want[b] == "canceled", "C02: job started before its blocker ran (node that is not the batch's manager)",
                         job=name, blocker=nm[b])
            ex.reached()
            return
        for i in range(N):
            n = nm[i]
            ex.check(n in res, "C03/C04: job without a recorded outcome after the queue drained", job=n)
            if n not in res:
                continue
            r = res[n]
            if want[i] == "canceled":
                ex.check(r.status == "canceled", "C04: flagged job with a failed or canceled blocker was not canceled", job=n,
                         status=r.status)
                ex.check(n not in W["launched"], "C04: canceled job was started", job=n)
                ex.check(ex.value(r.return_code != 0), "C04: canceled record has return code 0", job=n)
            else:
                ex.check(r.status == "finished", "C04: job canceled although no blocker failed or it is not flagged", job=n,
                         flagged=flags[i])
                ex.check(W["launched"].count(n) == 1, "C01/C04: job that is not canceled did not run exactly once", job=n)
                if n in rc:
                    ex.check(r.return_code == rc[n], "C19: recorded return code differs from the process exit code", job=n)
                ex.check(r.hpc_job_id == "4242", "C19: recorded HPC job id differs from the node's", job=n)
        ex.reached()

    return harness
