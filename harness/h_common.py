"""Shared pieces of the bounded-history harnesses: scenario construction, the scheduler
loop driven by solver choices, reference evaluation, observers."""
import json
import os
import shutil

from .common import REPO, bootstrap, fresh_dir, local_group, names, scratch_root, slurm_group

SHAPES = {
    # name -> (N, {i: [blockers]})
    "indep2": (2, {}),
    "chain2": (2, {1: [0]}),
    "rchain2": (2, {0: [1]}),
    "indep3": (3, {}),
    "chain3": (3, {1: [0], 2: [1]}),
    "rchain3": (3, {0: [1], 1: [2]}),
    "fork3": (3, {1: [0], 2: [0]}),
    "join3": (3, {2: [0, 1]}),
    "mid3": (3, {0: [2], 1: [0]}),
    "tri3": (3, {1: [0], 2: [0, 1]}),
    "cycle2p1": (3, {0: [1], 1: [0]}),
    "diamond4": (4, {1: [0], 2: [0], 3: [1, 2]}),
    "chain4": (4, {1: [0], 2: [1], 3: [2]}),
    "rchain4": (4, {0: [1], 1: [2], 2: [3]}),
    "indep4": (4, {}),
    "join4": (4, {3: [0, 1, 2]}),
    "two_chains4": (4, {1: [0], 3: [2]}),
}


def setup_world(ex, **kw):
    from world.world import World, install

    install()
    bootstrap()
    root = fresh_dir("h")
    w = World(root, ex=ex, **kw)
    return w


def write_config(w, jobs, groups, **cfg_kw):
    """Real GenericCommandConfiguration -> config file through the real dump()."""
    from .common import make_config

    config = make_config(jobs, groups, **cfg_kw)
    path = os.path.join(w.root, "config.json")
    config.dump(path)
    return path


def reference_outcome(N, blockers, flags, rc_of, missing=()):
    """Topological evaluation of the DAG: name -> 'successful' | 'failed' | 'canceled' | 'missing'.

    A flagged job is canceled iff some blocker failed or was canceled; a job with a missing
    blocker never runs (missing unless canceled through another blocker)."""
    nm = names(N)
    out = {}
    pending = set(range(N))
    progress = True
    while pending and progress:
        progress = False
        for i in sorted(pending):
            bl = blockers.get(i, [])
            if any(b in pending for b in bl):
                continue
            bad = any(out[nm[b]] in ("failed", "canceled") for b in bl)
            miss = any(out[nm[b]] == "missing" for b in bl)
            if flags[i] and bad:
                out[nm[i]] = "canceled"
            elif miss or nm[i] in missing:
                out[nm[i]] = "missing"
            else:
                rc = rc_of(nm[i])
                out[nm[i]] = "successful" if rc == 0 else "failed"
            pending.discard(i)
            progress = True
    for i in pending:  # dependency cycle: blocked for ever
        out[nm[i]] = "missing"
    return out


def classify(result):
    if result.is_successful():
        return "successful"
    if result.is_failed():
        return "failed"
    if result.is_canceled():
        return "canceled"
    return "unclassified"


def enabled_events(w, allow_start=True):
    """Scheduler events of the coarse granularity (DESIGN section 5)."""
    ev = []
    for bid, b in w.batches.items():
        if b["state"] == "PENDING" and allow_start:
            ev.append(("start", bid))
    for j in w.jobs:
        if j["state"] == "running" and w.batches.get(j["batch"], {}).get("state", "RUNNING") == "RUNNING":
            ev.append(("exit", j["name"]))
    for bid, b in w.batches.items():
        if b["state"] == "RUNNING" and b["node"] is not None and not b["node"].done:
            unseen = any(j["batch"] == bid and j["state"] == "exited" and not j["seen"] for j in w.jobs)
            if unseen or b.get("progress"):
                ev.append(("poll", bid))
    return ev


def fire(w, ev, rc_of):
    kind, arg = ev
    if kind == "start":
        w.start_batch(arg)
    elif kind == "exit":
        job = [j for j in w.jobs if j["name"] == arg and j["state"] == "running"][0]
        w.exit_job(job, rc_of(arg))
    elif kind == "poll":
        w.poll_node(arg)
    else:
        raise ValueError(ev)


def cluster_status(out):
    """The persisted status, read with JADE's own loader (Cluster._deserialize) while no virtual process runs.
    Returns None when the status cannot be read: a lock marker was left behind (wedged submission) or the files
    are missing/unparsable.  The cluster lock is not taken: the observer runs on the scheduler thread while every
    virtual process is suspended, and JADE's lock wrapper would re-create the marker if the read itself failed."""
    from jade.jobs.cluster import Cluster

    if os.path.exists(os.path.join(out, Cluster.LOCK_FILE)):
        return None
    try:
        cluster, _ = Cluster._deserialize(out, deserialize_jobs=True)
    except Exception:
        return None
    return cluster
