"""C18 kernels on jsym: K-script, K-status, K-sbatch, K-retry (real SlurmManager,
HpcSubmitter._create_run_script, AsyncHpcSubmitter.is_complete, run_command)."""
import os

from jsym import is_sym
from .common import ProcProtocol, bootstrap, scratch_root, set_raw, slurm_group

# SLURM job state vocabulary (squeue long names / short codes)
TERMINAL = {"COMPLETED": "CD", "COMPLETING": "CG", "FAILED": "F", "CANCELLED": "CA", "TIMEOUT": "TO", "NODE_FAIL": "NF",
            "PREEMPTED": "PR", "BOOT_FAIL": "BF", "DEADLINE": "DL", "OUT_OF_MEMORY": "OOM", "REVOKED": "RV",
            "SPECIAL_EXIT": "SE"}
NON_TERMINAL = {"PENDING": "PD", "CONFIGURING": "CF", "RUNNING": "R", "SUSPENDED": "S", "STOPPED": "ST", "RESIZING": "RS",
                "REQUEUED": "RQ", "REQUEUE_HOLD": "RH", "REQUEUE_FED": "RF", "RESV_DEL_HOLD": "RD", "SIGNALING": "SI",
                "STAGE_OUT": "SO"}
OOV = ["completed", "COMPLETE", "COMPLETED+", "CANCELLED+", "DONE", "X", "(null)", "N/A"]


class _Pipe(ProcProtocol):
    def __init__(self, rc, out="", err=""):
        self.returncode = rc
        self._o, self._e = out, err
        self.pid = 4242

    def communicate(self, input=None, timeout=None):
        return self._o.encode(), self._e.encode()

    def poll(self):
        return self.returncode


def _install():
    from world import world

    world.install()
    bootstrap()
    return world


def k_retry(max_retries=6):
    world = _install()
    from jade.utils.run_command import run_command

    ERRS = ["Invalid job id specified", "Invalid qos specification"]

    def harness(ex):
        retries = ex.int("retries", 0, max_retries)
        want_output = ex.flag("want_output")
        use_errors = want_output and ex.flag("error_strings")
        delay = 10
        calls, sleeps = [], []
        rcs, perm = [], []

        def popen(argv, *a, **kw):
            k = len(calls)
            rc = ex.int("rc%d" % k, -255, 255)
            which = ex.choice("perm%d" % k, len(ERRS) + 1)  # 0 = transient, k = the k-th listed permanent error
            p = which > 0
            rcs.append(rc)
            perm.append(p)
            calls.append(list(argv))
            return _Pipe(rc, out="out%d" % k, err=("slurm: %s\n" % ERRS[which - 1]) if p else "transient %d" % k)

        world.KERNEL.update(popen=popen, sleep=lambda s: sleeps.append(s))
        try:
            output = {} if want_output else None
            kw = dict(error_strings=list(ERRS)) if use_errors else {}
            ret = run_command("squeue -u me", output, num_retries=retries, retry_delay_s=delay, **kw)
        finally:
            world.KERNEL.update(popen=None, sleep=None)
        n = len(calls)
        r = ex.value(retries)
        ex.check(1 <= n <= r + 1, "C18: command executed more often than retries + 1", executions=n, retries=r)
        for k in range(n - 1):
            ex.check(rcs[k] != 0, "C18: command retried after a success", attempt=k)
            if use_errors and r > 0:
                ex.check(not perm[k], "C18: command retried after a listed permanent error", attempt=k)
        last_ok = rcs[n - 1] == 0
        stop_perm = use_errors and r > 0 and perm[n - 1]
        ex.check(last_ok | stop_perm | (n == r + 1), "C18: retry loop gave up early", executions=n, retries=r)
        ex.check(ret == rcs[n - 1], "C18: returned code is not the last attempt's")
        if want_output:
            ex.check(output.get("stdout") == "out%d" % (n - 1), "C18: returned output is not the last attempt's",
                     got=output.get("stdout"))
        ex.check(sleeps == [delay] * (n - 1), "C18: delay between attempts is not retry_delay_s per retry", sleeps=sleeps)
        ex.check(all(c == ["squeue", "-u", "me"] for c in calls), "C18: retried command differs from the requested one")
        ex.reached()

    return harness


OPTIONAL = ("partition", "reservation", "qos", "gres", "mem", "tmp", "nodes", "ntasks", "ntasks_per_node")
VALUES = dict(partition="debug", reservation="resv1", qos="high", gres="gpu:2", mem="80GB", tmp="100G", nodes=2, ntasks=3,
              ntasks_per_node=4)


def k_script():
    _install()
    import jade.hpc.hpc_submitter as hs
    from jade.hpc.hpc_manager import HpcManager
    from jade.models import SubmissionGroup
    from jade.cli.run_jobs import run_jobs as run_jobs_cmd

    out = os.path.join(scratch_root(), "kscript")
    os.makedirs(out, exist_ok=True)

    def harness(ex):
        fields = {}
        for f in OPTIONAL:
            if ex.flag("set_" + f):
                fields[f] = VALUES[f]
        wall = ["4:00:00", "0:30:00", "48:00:00"][ex.choice("wall", 3)]
        nproc = [None, 1, 7][ex.choice("nproc", 3)]
        verbose = ex.flag("verbose")
        dsub = ex.flag("distributed")
        G = 1 + ex.choice("other_group", 2)
        groups = {}
        for g in range(G):
            kw = dict(fields) if g == 0 else {}
            gd = slurm_group("g%d" % g, walltime=wall if g == 0 else "1:11:11", account="acct%d" % g, job_prefix="pre%d" % g,
                             verbose=verbose if g == 0 else not verbose,
                             distributed_submitter=dsub if g == 0 else not dsub, **kw)
            if g == 0 and nproc is not None:
                gd["submitter_params"]["num_parallel_processes_per_node"] = nproc
            if g == 1:
                gd["submitter_params"]["num_parallel_processes_per_node"] = 5
            groups["g%d" % g] = SubmissionGroup(**gd)
        if G == 2 and ex.flag("swap_order"):
            groups = dict(reversed(list(groups.items())))
        mgr = HpcManager(groups, out)
        # --- run script for group g0 through the real HpcSubmitter._create_run_script
        run_script = os.path.join(out, "run_batch_7.sh")
        cfg_file = os.path.join(out, "config_batch_7.json")
        sub = hs.HpcSubmitter.__new__(hs.HpcSubmitter)
        sub._output = out
        hs.HpcSubmitter._create_run_script(sub, cfg_file, run_script, groups["g0"])
        rl = [l for l in open(run_script).read().split("\n") if l.strip()]
        ex.check(rl[0] == "#!/bin/bash" and len(rl) == 2, "C18: run script is not shebang + one command", lines=rl)
        import shlex

        argv = shlex.split(rl[-1])
        ex.check(argv[:2] == ["jade-internal", "run-jobs"], "C18: run script does not invoke jade-internal run-jobs", argv=argv)
        try:
            ctx = run_jobs_cmd.make_context("run-jobs", argv[2:])
            p = ctx.params
            ex.check(p["config_file"] == cfg_file and p["output"] == out, "C18: run script names another batch config/output",
                     params={k: str(v) for k, v in p.items()})
            ex.check(p["num_parallel_processes_per_node"] == nproc and p["verbose"] == verbose
                     and p["distributed_submitter"] == dsub, "C07/C18: run script does not carry the group's run options",
                     params={k: str(v) for k, v in p.items()}, want=[nproc, verbose, dsub])
        except Exception as e:
            ex.check(False, "C18: run script line is not accepted by the real run-jobs command", error=str(e)[:200], argv=argv)
        # --- submission script through the real HpcManager.submit -> SlurmManager.create_submission_script
        from world import world

        sbatch = []

        def popen(argv_, *a, **kw):
            sbatch.append(list(argv_))
            return _Pipe(0, out="Submitted batch job 77\n")

        world.KERNEL.update(popen=popen, sleep=lambda s: None)
        try:
            job_id, status = mgr.submit(out, "pre0_batch_7", run_script, "g0")
        finally:
            world.KERNEL.update(popen=None, sleep=None)
        ex.check(len(sbatch) == 1 and sbatch[0][0] == "sbatch", "C18: not exactly one sbatch call", calls=sbatch)
        text = open(sbatch[0][1]).read() if sbatch else ""
        lines = text.split("\n")
        got = sorted(l for l in lines if l.startswith("#SBATCH"))
        hpc = groups["g0"].submitter_params.hpc_config.hpc
        want = {"account": "acct0", "job-name": "pre0_batch_7", "time": wall, "output": out + "/job_output_%j.o",
                "error": out + "/job_output_%j.e"}
        for f in OPTIONAL:
            v = getattr(hpc, f)  # after the model's own validators (e.g. nodes defaults to 1)
            if v is not None:
                want[f] = v
        norm = sorted("#SBATCH --%s=%s" % (k.replace("_", "-"), v) for k, v in want.items())
        ex.check(sorted(l.replace("_", "-") if l.startswith("#SBATCH --ntasks") else l for l in got) == norm,
                 "C18: #SBATCH lines are not exactly the configured parameters", got=got, want=norm)
        ex.check(lines[0] == "#!/bin/bash", "C18: submission script lacks the shebang")
        body = [l for l in lines if l.strip() and not l.startswith("#")]
        ex.check(body == ["srun " + run_script], "C18: submission script does not run exactly the batch's run script", body=body)
        ex.check(job_id == "77", "C18: id of the submit response not returned")
        ex.reached()

    return harness


def k_status(lines=2, ws="full"):  # noqa: C901
    world = _install()
    from jade.exceptions import ExecutionError
    from jade.hpc.common import HpcJobStatus
    from jade.hpc.hpc_manager import HpcManager
    from jade.hpc.hpc_submitter import AsyncHpcSubmitter, HpcStatusCollector
    from jade.models import SubmissionGroup

    vocab = list(TERMINAL) + list(NON_TERMINAL) + list(TERMINAL.values()) + list(NON_TERMINAL.values()) + OOV
    ids = ["101", "2202", "33"]
    lead = ["", " ", "\t  "] if ws == "full" else ["", " "]
    sep = [" ", "\t", "              "] if ws == "full" else ["              "]
    trail = ["", "  \t"] if ws == "full" else [" "]
    out = os.path.join(scratch_root(), "kstatus")
    os.makedirs(out, exist_ok=True)
    group = SubmissionGroup(**slurm_group("g0"))

    small = ["RUNNING", "COMPLETED", "PENDING"]

    def harness(ex):
        # one focus line over the whole vocabulary and all whitespace patterns, up to `lines` more lines
        # over a small vocabulary, in either order
        table = {}
        rows = []
        fail = ex.flag("squeue_fails")
        if not fail and ex.flag("focus"):
            st = vocab[ex.choice("state", len(vocab))]
            l, s_, t = lead[ex.choice("lead", len(lead))], sep[ex.choice("sep", len(sep))], trail[ex.choice("trail", len(trail))]
            rows.append(l + ids[0] + s_ + st + t)
            table[ids[0]] = st
        n = 0 if fail else ex.choice("others", lines + 1)
        for k in range(n):
            st = small[ex.choice("ostate%d" % k, len(small))]
            rows.append(ids[k + 1] + "            " + st + "           ")
            table[ids[k + 1]] = st
        if len(rows) > 1 and ex.flag("focus_last"):
            rows = rows[1:] + rows[:1]
        text = ""
        blank = bool(rows) and ex.flag("blank_lines")
        for r_ in rows:
            text += r_ + "\n" + ("\n" if blank else "")
        if rows and ex.flag("no_final_newline"):
            text = text.rstrip("\n")
        calls = []

        def popen(argv, *a, **kw):
            calls.append(list(argv))
            return _Pipe(1 if fail else 0, out="" if fail else text, err="slurm_load_jobs error" if fail else "")

        mgr = HpcManager({"g0": group}, out)
        coll = HpcStatusCollector(mgr, 10)
        world.KERNEL.update(popen=popen, sleep=lambda s: None, now=lambda: 5000.0)
        try:
            for jid in ids:
                a = AsyncHpcSubmitter.create_from_id(mgr, coll, jid)
                try:
                    done = a.is_complete()
                    err = None
                except ExecutionError as e:
                    done, err = False, e
                except Exception as e:
                    ex.check(False, "C18: status parse crashed on well-formed squeue output", error="%s: %s" % (type(e).__name__, e),
                             text=text)
                    continue
                if fail:
                    ex.check(err is not None and not done, "C18: failed status query treated as an answer", job=jid)
                    continue
                st = table.get(jid)
                if done:
                    ex.check(st is None or st in TERMINAL, "C18: batch in a non-finished state treated as finished",
                             state=st, text=text)
                if st is None or st in ("COMPLETED", "COMPLETING"):
                    ex.check(done, "C18: absent or completed batch not treated as finished", state=st, text=text)
        finally:
            world.KERNEL.update(popen=None, sleep=None, now=None)
        if fail:
            # retried, but boundedly (the number of retries is JADE's choice, today 6 per query)
            ex.check(len(ids) <= len(calls) <= 20 * len(ids), "C18: failing status query not retried a bounded number of times",
                     calls=len(calls))
        else:
            ex.check(len(calls) == 1, "C18: status collected more than once per poll interval", calls=len(calls))
        ex.reached()

    return harness


RESPONSES = [
    ("Submitted batch job 12345\n", "12345"),
    ("Submitted batch job 7", "7"),
    ("sbatch: Warning: can't run 1 processes on 2 nodes\nSubmitted batch job 991\n", "991"),
    ("Submitted batch job 55 on cluster c1\n", "55"),
    ("", None),
    ("Submitted batch job \n", None),
    ("Submitted batch job abc\n", None),
    ("submitted batch job 12\n", None),
    ("Submitted batch job12\n", None),
    ("Submitted  batch job 12\n", None),
    ("sbatch: error: Batch job submission failed: Invalid account\n", None),
    ("12345\n", None),
    ("Submitted batch job -5\n", None),
]


def k_sbatch():
    world = _install()
    from jade.enums import Status
    from jade.hpc.slurm_manager import SlurmManager
    from jade.models import SubmissionGroup

    group = SubmissionGroup(**slurm_group("g0"))

    def harness(ex):
        k = ex.choice("response", len(RESPONSES))
        text, want_id = RESPONSES[k]
        # how many attempts fail before the scheduler answers (transient failures), possibly all 7
        nfail = ex.choice("failing_attempts", 8)
        calls = []

        def popen(argv, *a, **kw):
            calls.append(list(argv))
            if len(calls) <= nfail:
                return _Pipe(1, out="", err="sbatch: error: Socket timed out")
            return _Pipe(0, out=text, err="")

        world.KERNEL.update(popen=popen, sleep=lambda s: None)
        try:
            mgr = SlurmManager(group.submitter_params.hpc_config)
            status, job_id, err = mgr.submit("/x/job_batch_1.sh")
        finally:
            world.KERNEL.update(popen=None, sleep=None)
        # JADE may give up before the scheduler answers (its retry budget is its own choice, today 6 retries)
        answered = len(calls) == nfail + 1
        ex.check(1 <= len(calls) <= nfail + 1 and len(calls) <= 20, "C18: sbatch executed after a success or an unbounded number of times",
                 calls=len(calls), nfail=nfail)
        ok = answered and want_id is not None
        ex.check((status == Status.GOOD) == ok, "C18: submit status does not match the scheduler's response",
                 response=text, status=str(status), attempts=len(calls))
        if ok:
            ex.check(job_id == want_id, "C18: job id differs from the id in the submit response", got=job_id, want=want_id)
        else:
            ex.check(status == Status.ERROR, "C18: unparsable or failed submit response not treated as a failed submission",
                     response=text)
        if nfail <= 1:
            ex.check(answered, "C18: a single transient sbatch failure is not retried", calls=len(calls))
        ex.check(all(c == ["sbatch", "/x/job_batch_1.sh"] for c in calls), "C18: sbatch called with other arguments")
        ex.reached()

    return harness
