"""K-batch: one real HpcSubmitter.run() round from an arbitrary invariant-satisfying
cluster state, with symbolic batching parameters.  Serves C01 C02 C05 C06 C07.

Real code executed: HpcSubmitter.__init__/run/_submit_batches/_make_batch/
_get_available_jobs(_by_time)/_submit_batch/_make_async_submitter/_update_status/_is_complete,
_BatchJobs.*, JobQueue.*, AsyncHpcSubmitter.*, HpcStatusCollector.check_status,
HpcManager.submit, SlurmManager.create_submission_script, Cluster.update_job_status/
_update_job_status/are_all_jobs_complete.

Stubs (each part of the claim): SlurmManager.submit (scheduler: increasing ids, may
fail: symbolic), HpcManager.check_statuses (scheduler's view of earlier batches:
symbolic), dump_data / HpcSubmitter._create_run_script (recorders, so estimated
minutes and processes stay symbolic), ResultsAggregator.load (no new results in this
kernel; K-collect covers them), SubmitterParams.get_wall_time + hpc_submitter.timedelta
(exact integer-microsecond model, walltime in whole seconds), Cluster._serialize(_jobs)
(no-op; K-cluster covers the files).
"""
import os

from jsym import SymTD, sym_and, sym_or, is_sym
from .common import bootstrap, make_config, names, scratch_root, set_raw, slurm_group


def k_batch(N=3, G=1, mode="both", states=2, max_est=10000, sym_np=True, shapes=None, active_max=2,
            sbatch_fail=True):
    bootstrap()
    import jade.hpc.hpc_submitter as hs
    from jade.enums import Status
    from jade.hpc.common import HpcJobStatus
    from jade.hpc.hpc_manager import HpcManager
    from jade.hpc.slurm_manager import SlurmManager
    from jade.jobs.cluster import Cluster
    from jade.jobs.job_queue import JobQueue
    from jade.models import ClusterConfig, Job, JobState, JobStatus, SubmitterParams
    from jade.models.submission_group import SubmissionGroup

    out = os.path.join(scratch_root(), "kbatch")
    os.makedirs(out, exist_ok=True)
    W = {}  # world of the current path

    hs.timedelta = SymTD
    SubmitterParams.get_wall_time = lambda self: self.__dict__["_verif_wall"]
    hs.dump_data = lambda data, filename, **kw: W["dumps"].append((data, str(filename)))
    hs.HpcSubmitter._create_run_script = lambda self, cfg, filename, group: W["scripts"].append(
        (str(cfg), str(filename), group.name))

    class _Agg:
        def process_results(self):
            return []

        def append_result(self, r):
            W["appended"].append(r)

    from jade.jobs.results_aggregator import ResultsAggregator  # patched on the class: independent of import style

    ResultsAggregator.load = classmethod(lambda cls, output: _Agg())

    def _check_statuses(self):
        W["squeue"] += 1
        return dict(W["statuses"])

    HpcManager.check_statuses = _check_statuses

    def _submit(self, filename):
        ex = W["ex"]
        k = len(W["sbatch"])
        fail = ex.flag("sbfail%d" % k) if sbatch_fail else False
        active_before = len(W["statuses"]) + sum(
            1 for s in W["sbatch"] if s["ok"])
        W["sbatch"].append(dict(file=filename, ok=not fail, account=self._config.hpc.account,
                                active_before=active_before))
        if fail:
            return Status.ERROR, None, "error"
        W["next_id"] += 1
        return Status.GOOD, str(W["next_id"]), ""

    SlurmManager.submit = _submit
    Cluster._serialize = lambda self, reason: None
    Cluster._serialize_jobs = lambda self, reason: None
    Cluster._check_versions = lambda self, reason: None  # (no files in this kernel)

    nm = names(N)

    def harness(ex):
        W.clear()
        W.update(ex=ex, dumps=[], scripts=[], appended=[], sbatch=[], squeue=0, statuses={}, next_id=1000)
        lock = os.path.join(out, hs.HpcSubmitter.LOCK_FILENAME)
        for f in (lock, os.path.join(out, Cluster.LOCK_FILE)):
            if os.path.exists(f):
                os.remove(f)
        # ---- parameters (per group; max_nodes must be the same in all groups)
        maxn = None if ex.flag("maxn_none") else ex.int("maxn", 1, N + 1)
        tb, ta, wall, npn, bs = [], [], [], [], []
        for g in range(G):
            tb.append({"count": False, "time": True}.get(mode) if mode != "both" else ex.flag("tb%d" % g))
            ta.append(ex.flag("ta%d" % g))
            bs.append(ex.int("bs%d" % g, 1, N + 1))
            if tb[g]:
                wall.append(ex.int("wall%d" % g, 1, 360000))
                npn.append(ex.int("np%d" % g, 1, 8) if sym_np else ex.choice("np%d" % g, 2) + 1)
            else:
                wall.append(14400)
                npn.append(None)
        groups = []
        for g in range(G):
            grp = SubmissionGroup(**slurm_group("g%d" % g, account="acct%d" % g, job_prefix="p%d" % g))
            set_raw(grp.submitter_params, max_nodes=maxn, time_based_batching=tb[g], try_add_blocked_jobs=ta[g],
                    per_node_batch_size=bs[g], num_parallel_processes_per_node=npn[g],
                    _verif_wall=SymTD(seconds=wall[g]))
            groups.append(grp)
        # ---- structure: state of each job, remaining blockers, group, estimate
        st, grp_of, est = [], [], []
        for i in range(N):
            st.append(ex.choice("st%d" % i, states))  # 0 not_submitted 1 submitted 2 done
            grp_of.append(ex.choice("g%d" % i, G))
        blk = []
        for i in range(N):
            b = set()
            for j in range(N):
                if i != j and st[i] == 0 and st[j] != 2:  # invariant: only unsubmitted jobs wait, never for a done job
                    if shapes is None or (i, j) in shapes:
                        if ex.flag("b%d_%d" % (i, j)):
                            b.add(nm[j])
            blk.append(b)
        for i in range(N):
            if tb[grp_of[i]]:
                e = ex.int("est%d" % i, 0, max_est)
                ex.assume(e * 60 <= wall[grp_of[i]])  # JobSubmitter.run_checks / check_job_runtimes
                est.append(e)
            else:
                est.append(None)
        config = make_config([dict(name=nm[i], blocked_by=set(), submission_group="g%d" % grp_of[i])
                              for i in range(N)], [])
        for i in range(N):
            set_raw(config.get_job(nm[i])._model, estimated_run_minutes=est[i])
        for grp in groups:
            config.append_submission_group(grp)
        jstate = {0: JobState.NOT_SUBMITTED, 1: JobState.SUBMITTED, 2: JobState.DONE}
        jobs = [Job(name=nm[i], blocked_by=set(blk[i]), state=jstate[st[i]]) for i in range(N)]
        n_active = ex.choice("active", active_max + 1)
        active_ids = [str(900 + k) for k in range(n_active)]
        for k, jid in enumerate(active_ids):
            if not ex.flag("fin%d" % k):
                # listed by the scheduler and not finished: running, queued, or a state JADE does not know (e.g. SUSPENDED)
                W["statuses"][jid] = [HpcJobStatus.RUNNING, HpcJobStatus.QUEUED, HpcJobStatus.UNKNOWN][ex.choice("state%d" % k, 3)]
        start_index = 1 + n_active + sum(1 for s in st if s != 0)  # any persisted index beyond earlier batches
        cc = ClusterConfig(path=out, num_jobs=N, submitter="h", submission_groups=groups, version=1,
                           submitted_jobs=sum(1 for s in st if s != 0), completed_jobs=sum(1 for s in st if s == 2))
        cluster = Cluster(cc, job_status=JobStatus(jobs=jobs, hpc_job_ids=list(active_ids),
                                                   batch_index=start_index, version=1))
        updates = []
        real_update = cluster._update_job_status

        def rec_update(submitted, blocked, canceled, completed, ids, bidx):
            updates.append(dict(submitted=[j.name for j in submitted], blocked=[j.name for j in blocked],
                                canceled=[j.name for j in canceled], completed=sorted(completed), ids=list(ids),
                                batch_index=bidx))
            return real_update(submitted, blocked, canceled, completed, ids, bidx)

        cluster._update_job_status = rec_update
        sub = hs.HpcSubmitter(config, os.path.join(out, "config.json"), cluster, out)
        # ---- the round
        from jsym import PathBudget

        try:
            sub.run()
            raised = None
        except Exception as e:  # noqa: a fault-free round must not raise
            raised = "%s: %s" % (type(e).__name__, str(e)[:120])
        except PathBudget:
            ex.check(False, "C05: submitter round did not terminate within the path budget", fatal=True)
            return
        # ---- oracle
        batches = []
        for (data, fname) in W["dumps"]:
            idx = int(fname.rsplit("_batch_", 1)[1].split(".")[0])
            batches.append(dict(index=idx, jobs=data["jobs"], file=fname))
        if len(W["scripts"]) != len(batches):
            # the recorders of this kernel were bypassed (e.g. an internal helper was renamed): a harness problem, not a finding
            raise RuntimeError("K-batch recorders out of step: %d batch configs, %d run scripts" % (len(batches), len(W["scripts"])))
        ex.check(len(batches) == len(W["sbatch"]), "C01/C07: one sbatch per batch config",
                 batches=len(batches), sbatch=len(W["sbatch"]))
        placed = {}
        for b in batches:
            for j in b["jobs"]:
                ex.check(j["name"] not in placed, "C01: job placed in two batches", job=j["name"],
                         batches=[placed.get(j["name"]), b["index"]])
                placed[j["name"]] = b["index"]
        for i in range(N):
            if st[i] != 0:
                ex.check(nm[i] not in placed, "C01: already submitted job placed again", job=nm[i])
        idxs = [b["index"] for b in batches]
        ex.check(len(set(idxs)) == len(idxs), "C01: batch identifier reused within the round", idxs=idxs)
        ex.check(all(i >= start_index for i in idxs), "C01: batch identifier of an earlier round reused", idxs=idxs)
        if updates:
            u = updates[-1]
            ex.check(len(updates) == 1, "one status update per round")
            ex.check(sorted(u["submitted"]) == sorted(placed), "C01: persisted submitted set != jobs handed to the HPC",
                     persisted=u["submitted"], placed=sorted(placed))
            ex.check(all(u["batch_index"] > i for i in idxs), "C01: persisted next batch index not beyond issued ones",
                     persisted=u["batch_index"], idxs=idxs)
            ok_ids = [str(1001 + k) for k in range(sum(1 for s in W["sbatch"] if s["ok"]))]
            ex.check(sorted(u["ids"]) == sorted(list(W["statuses"]) + ok_ids),
                     "C06/C12: persisted active ids != still-active + successfully submitted", ids=u["ids"])
        else:
            ex.check(not placed, "C01: batches submitted but status not persisted")
        name_idx = {n: i for i, n in enumerate(nm)}
        for b in batches:
            gset = {grp_of[name_idx[j["name"]]] for j in b["jobs"]}
            ex.check(len(b["jobs"]) >= 1, "C07: empty batch submitted")
            ex.check(len(gset) == 1, "C07: batch mixes submission groups", batch=b["index"])
            g = next(iter(gset))
            k = idxs.index(b["index"])
            ex.check(W["scripts"][k][2] == "g%d" % g, "C07: run script created for another group")
            ex.check(W["sbatch"][k]["account"] == "acct%d" % g, "C07: batch submitted with another group's HPC parameters",
                     got=W["sbatch"][k]["account"], group=g)
            text = open(W["sbatch"][k]["file"]).read()
            ex.check("--account=acct%d\n" % g in text and ("srun " + W["scripts"][k][1]) in text,
                     "C07: submission script does not carry the group's account / the batch's run script")
            ex.check(W["scripts"][k][0] == b["file"], "C07: run script points at another batch config")
            if tb[g]:
                total = sum(est[name_idx[j["name"]]] for j in b["jobs"])
                ex.check(total * 60 <= wall[g] * npn[g], "C07: estimated minutes exceed walltime x processes",
                         batch=b["index"])
            else:
                ex.check(len(b["jobs"]) <= bs[g], "C07: more jobs than per-node batch size", batch=b["index"],
                         size=len(b["jobs"]))
            bnames = {j["name"] for j in b["jobs"]}
            for j in b["jobs"]:
                i = name_idx[j["name"]]
                ex.check(set(j["blocked_by"]) == blk[i], "C02: serialized blockers differ from the remaining set",
                         job=j["name"], got=sorted(j["blocked_by"]), want=sorted(blk[i]))
                ex.check(blk[i] <= bnames, "C02/C07: blocked job batched without all of its unfinished blockers",
                         job=j["name"])
                if blk[i]:
                    ex.check(ta[g] is True, "C07: blocked job batched although try-add-blocked is off", job=j["name"])
        # C06: queued+running batches never exceed max_nodes
        if maxn is not None:
            for s in W["sbatch"]:
                ex.check(s["active_before"] + 1 <= maxn, "C06: sbatch while max-nodes batches are active",
                         active_before=s["active_before"])
        # C05 step clause: a ready job is left behind only when the node limit is reached
        active_after = len(W["statuses"]) + sum(1 for s in W["sbatch"] if s["ok"])
        for i in range(N):
            if st[i] == 0 and not blk[i] and nm[i] not in placed:
                ex.check(maxn is not None and active_after >= maxn,
                         "C05: ready job left unsubmitted although the node limit is not reached", job=nm[i])
        # post-state (real Cluster._update_job_status): counters, states, invariant for the next round
        jobs_after = {j.name: j for j in cluster.job_status.jobs}
        for i in range(N):
            ja = jobs_after[nm[i]]
            if nm[i] in placed:
                ex.check(ja.state == JobState.SUBMITTED and not ja.blocked_by, "C09: placed job not marked submitted")
            else:
                ex.check(ja.state == jstate[st[i]], "C09: state of an untouched job changed")
                ex.check(ja.blocked_by == blk[i], "C02/C09: remaining blockers changed without a result")
        ex.check(cluster.config.submitted_jobs == sum(1 for j in jobs_after.values() if j.state != JobState.NOT_SUBMITTED),
                 "C09: submitted counter != recount")
        ex.check(raised is None, "C01/C05/C09: fault-free submitter round raised", error=raised)
        ex.check(not os.path.exists(lock), "C05/C11: round marker left behind by a fault-free round")
        ex.reached()

    return harness
