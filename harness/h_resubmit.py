"""C13: K-closure (resubmit_jobs._update_with_blocking_jobs/_get_jobs_to_resubmit,
Cluster.prepare_for_resubmission) and H-resubmit (whole resubmissions through the CLI)."""
import json
import os
import shutil

from .common import bootstrap, fresh_dir, make_config, names, slurm_group
from .h_common import SHAPES, classify, cluster_status, enabled_events, fire, setup_world, write_config


_DUMP = bool(os.environ.get("VERIF_DUMP"))  # (read at import: virtual processes get their own environment)


def _closure(N, blockers, selected):
    """Reflexive-transitive dependants closure (reference, 8 lines)."""
    out = set(selected)
    changed = True
    while changed:
        changed = False
        for i in range(N):
            if i not in out and blockers.get(i, set()) & out:
                out.add(i)
                changed = True
    return out


def _tree(d, skip=()):
    out = {}
    for root, dirs, fs in os.walk(d):
        for f in fs:
            p = os.path.join(root, f)
            rel = os.path.relpath(p, d)
            if any(rel.endswith(s) for s in skip):
                continue
            out[rel] = open(p, "rb").read()
        for x in dirs:
            out[os.path.relpath(os.path.join(root, x), d) + "/"] = b""
    return out


def k_closure(N=3, outcomes=4):
    bootstrap()
    import jade.cli.resubmit_jobs as rs
    from jade.jobs.cluster import Cluster
    from jade.jobs.job_submitter import JobSubmitter
    from jade.result import Result

    def harness(ex):
        nm = names(N)
        blockers = {i: {j for j in range(N) if j != i and ex.flag("b%d_%d" % (i, j))} for i in range(N)}
        # outcome of each job in the completed submission
        # 0 successful 1 failed 2 canceled 3 missing (outcomes=2: successful / missing only, to afford N=4)
        kind = [[0, 3, 1, 2][ex.choice("outcome%d" % i, outcomes)] for i in range(N)]
        failed, missing, successful = ex.flag("failed"), ex.flag("missing"), ex.flag("successful")
        out = fresh_dir("kclo")
        config = make_config([dict(name=nm[i], blocked_by={nm[b] for b in blockers[i]}) for i in range(N)], [slurm_group("default")])
        config.dump(os.path.join(out, "config.json"))
        sub = JobSubmitter.__new__(JobSubmitter)
        sub._output, sub._config = out, config
        sub._results = [Result(nm[i], [0, 3, 1][kind[i]], "canceled" if kind[i] == 2 else "finished", 1.0, 50.0, "9")
                        for i in range(N) if kind[i] != 3]
        sub.write_results_summary("results.json", [nm[i] for i in range(N) if kind[i] == 3])
        cluster = Cluster.create(out, config)
        try:
            selected = rs._get_jobs_to_resubmit(cluster, out, failed, missing, successful)
            want_sel = {nm[i] for i in range(N) if (failed and kind[i] in (1, 2)) or (missing and kind[i] == 3)
                        or (successful and kind[i] == 0)}
            ex.check(selected == want_sel, "C13: jobs selected by the flags differ from the specification", got=sorted(selected),
                     want=sorted(want_sel))
            sel = set(selected)
            updated = rs._update_with_blocking_jobs(sel, out)
        except AssertionError as e:
            ex.check(False, "C13: closure iteration bound assertion fired", error=str(e)[:200])
            return
        clo = {nm[i] for i in _closure(N, blockers, {nm.index(n) for n in want_sel})}
        ex.check(sel == clo, "C13: resubmission set is not the selected jobs plus their transitive dependents", got=sorted(sel),
                 want=sorted(clo))
        for i in range(N):
            inter = {nm[b] for b in blockers[i]} & clo
            if nm[i] in clo and inter:
                ex.check(updated.get(nm[i]) == inter, "C13: remaining blockers of a resubmitted job are not its blockers being rerun",
                         job=nm[i], got=sorted(updated.get(nm[i], [])), want=sorted(inter))
            else:
                ex.check(nm[i] not in updated or not (nm[i] in clo), "C13: blockers recorded for a job that has none being rerun",
                         job=nm[i])
        # Cluster.prepare_for_resubmission on the real files (all jobs done, submission complete)
        if clo and all(kind[i] != 3 or nm[i] in clo for i in range(N)):
            from jade.models import JobState

            for j in cluster.job_status.jobs:
                j.state = JobState.DONE
                j.blocked_by = set()
            cluster.config.submitted_jobs = N
            cluster.config.completed_jobs = N
            cluster.config.is_complete = True
            cluster._serialize("verif")
            cluster._serialize_jobs("verif")
            cluster.prepare_for_resubmission(clo, updated)
            c2, _ = Cluster.deserialize(out, deserialize_jobs=True)
            st = {j.name: j for j in c2.job_status.jobs}
            ex.check(not c2.is_complete(), "C13: submission still complete after preparing the resubmission")
            ex.check(c2.config.submitted_jobs == N - len(clo) and c2.config.completed_jobs == N - len(clo),
                     "C13: counters not recomputed for the resubmission", submitted=c2.config.submitted_jobs,
                     completed=c2.config.completed_jobs)
            for n in nm:
                if n in clo:
                    ex.check(st[n].state.value == "not_submitted" and st[n].blocked_by == updated.get(n, set()),
                             "C13: resubmitted job not reset to not-submitted with its rerun blockers", job=n)
                else:
                    ex.check(st[n].state.value == "done", "C13: state of a job that is not resubmitted changed", job=n)
        ex.reached()

    return harness


def h_resubmit(shapes=("chain3", "fork3"), bss=(2,), flagsets=None, incomplete=True, second=False, max_steps=60, fault_kinds=None,
               lock_mode="M1", hooks=False):
    """second: the completed resubmission is resubmitted once more (exit codes of the first rerun are solver-chosen), same oracles.
    fault_kinds: one injected error (EDQUOT at a write-open, Timeout at a lock acquisition, sbatch failing on every retry) at a
    solver-chosen effect point of resubmit-jobs; oracle = C13's last clause (results not erased without a way forward)."""
    flagsets = flagsets or [[], ["--no-failed"], ["--successful"], ["--no-missing", "--successful"]]

    def harness(ex):
        from world.world import Hang

        w = setup_world(ex, lock_mode=lock_mode)
        try:
            _run(ex, w)
        except Hang as e:
            ex.check(False, "C13: a JADE process did not terminate", what=str(e)[:200], fatal=True)
        finally:
            w.close()

    def run_to_quiescence(ex, w, out, rc_of, tag, lose=None):
        for step in range(max_steps):
            evs = enabled_events(w)
            if lose is not None and lose[0] and any(e[0] == "start" for e in evs):
                # the scheduler loses one pending batch (it will be missing)
                bid = [e[1] for e in evs if e[0] == "start"][0]
                w.batches[bid]["state"] = "CANCELLED"
                w.record("batch_killed", id=bid, state="CANCELLED")
                lose[0] = False
                continue
            if not evs:
                c = cluster_status(out)
                if c is None:
                    return "wedged"
                if c.is_complete():
                    return "complete"
                before = len(w.events("sbatch"))
                w.user(["jade", "try-submit-jobs", out])
                c = cluster_status(out)
                if c is None:
                    return "wedged"
                if not (len(w.events("sbatch")) > before or c.is_complete()):
                    return "stuck"
                continue
            fire(w, evs[ex.choice("%s%d" % (tag, step), len(evs))], rc_of)
        return "steps"

    def _run(ex, w):
        shape = shapes[ex.choice("shape", len(shapes))]
        N, blockers = SHAPES[shape]
        blk = {i: set(v) for i, v in blockers.items()}
        nm = names(N)
        bs = bss[ex.choice("bs", len(bss))]
        flags = [bool(blk.get(i)) and ex.flag("cf%d" % i) for i in range(N)]
        jobs = [dict(name=nm[i], command="job " + nm[i], blocked_by={nm[b] for b in blk.get(i, [])},
                     cancel_on_blocking_job_failure=flags[i]) for i in range(N)]
        cfg_kw = {}
        if hooks:  # C16: setup once per submission, teardown once per completion, node hooks once per batch - across resubmissions
            for h in ("setup", "teardown", "node_setup", "node_teardown"):
                cfg_kw[h + "_command"] = "hook-%s --arg 'a b'" % h
        cfg = write_config(w, jobs, [slurm_group("default", per_node_batch_size=bs)], **cfg_kw)
        out = os.path.join(w.root, "out")
        rc1 = {}

        def rc_first(name):
            if name not in rc1:
                rc1[name] = ex.choice("rc1_" + name, 2)
            return rc1[name]

        def consistency(w_, path):  # C09's consistency clauses (not the monotonicity ones: a resubmission resets jobs on purpose)
            if not path.endswith("cluster_config.json.lock"):
                return
            c_ = cluster_status(out)
            if c_ is None or c_.job_status is None:
                return
            done = sum(1 for j_ in c_.job_status.jobs if j_.state.value == "done")
            sub = sum(1 for j_ in c_.job_status.jobs if j_.state.value != "not_submitted")
            ex.check(c_.config.completed_jobs == done, "C09/C13: completed counter != number of done jobs", counter=c_.config.completed_jobs,
                     done=done)
            ex.check(c_.config.completed_jobs <= c_.config.submitted_jobs <= c_.config.num_jobs,
                     "C09/C13: completed <= submitted <= total violated", completed=c_.config.completed_jobs, submitted=c_.config.submitted_jobs)

        w.unlock_observer = consistency
        p = w.user(["jade", "submit-jobs", cfg, "-o", out])
        ex.check(p.rc == 0, "C13: initial submit-jobs failed", err="".join(p.err)[-300:])
        # ---- refusal on a submission that is not complete (optionally while another node is submitter)
        if incomplete and ex.flag("try_on_incomplete"):
            other = ex.choice("other_submitter", 3)  # 0 nobody, 1 another host holds the role, 2 a process on this host does
            if other:
                from jade.jobs.cluster import Cluster
                import socket

                holder = "node77" if other == 1 else "login1"
                prev = w.cur.host
                w.cur.host = holder
                c, promoted = Cluster.deserialize(out, try_promote_to_submitter=True, deserialize_jobs=True)
                w.cur.host = prev
                ex.check(promoted, "C10: promotion of the only candidate refused")
            def snapshot():
                # jobs, results, counters and the submitter role (version numbers and logs may change)
                t = _tree(out, skip=("submit_jobs.log", "submit_jobs_events.log", "config_version.txt", "job_status_version.txt",
                                     "cluster_config.json", "job_status.json"))
                cc = json.load(open(os.path.join(out, "cluster_config.json")))
                js = json.load(open(os.path.join(out, "job_status.json")))
                cc.pop("version")
                js.pop("version")
                return t, cc, js

            before = snapshot()
            r = w.user(["jade", "resubmit-jobs", out])
            ex.check(r.rc != 0, "C13: resubmit-jobs accepted a submission that is not complete", rc=r.rc)
            crashed = [e for e in w.events("crash") if e["argv"][:2] == ["jade", "resubmit-jobs"]]
            ex.check(not crashed, "C13: resubmit-jobs crashed instead of refusing an incomplete submission",
                     error=[e["error"] for e in crashed])
            ex.check(not os.path.exists(os.path.join(out, "cluster_config.json.lock")),
                     "C10/C13: refused resubmit-jobs left the cluster lock behind (submission wedged)")
            if os.path.exists(os.path.join(out, "cluster_config.json.lock")):
                return
            after = snapshot()
            diff = sorted(k for k in set(before[0]) | set(after[0]) if before[0].get(k) != after[0].get(k))
            ex.check(not diff, "C13: refused resubmit-jobs changed files of the submission", changed=diff)
            ex.check(before[2] == after[2], "C13: refused resubmit-jobs changed job states", before=before[2], after=after[2])
            ex.check({k: v for k, v in before[1].items() if k != "submitter"} == {k: v for k, v in after[1].items() if k != "submitter"},
                     "C13: refused resubmit-jobs changed counters or flags")
            ex.check(before[1]["submitter"] == after[1]["submitter"],
                     "C10/C13: refused resubmit-jobs changed the submitter role held by another process",
                     before=before[1]["submitter"], after=after[1]["submitter"])
            ex.reached()
            return
        lose = [ex.flag("lose_a_batch")]
        st = run_to_quiescence(ex, w, out, rc_first, "a", lose)
        ex.check(st == "complete", "C13: first submission did not complete", state=st)
        if st != "complete":
            return
        from jade.result import ResultsSummary

        if hooks:
            hk = w.events("hook")
            ex.check(len([e for e in hk if e["argv"][0] == "hook-setup"]) == 1 and len([e for e in hk if e["argv"][0] == "hook-teardown"]) == 1,
                     "C16: setup/teardown command did not run exactly once in the first submission", hooks=[e["argv"][0] for e in hk])
        rounds = 2 if second else 1
        for rnd in range(rounds):
            ok = _resubmission(ex, w, out, nm, blk, N, rnd, rnd == rounds - 1)
            if not ok:
                return
        ex.reached()

    def _resubmission(ex, w, out, nm, blk, N, rnd, last):
        from jade.result import ResultsSummary

        sfx = "" if rnd == 0 else "_r%d" % rnd
        first = {r.name: r for r in ResultsSummary(out).list_results()}
        kinds = {n: (classify(first[n]) if n in first else "missing") for n in nm}
        fl = flagsets[ex.choice("flags" + sfx, len(flagsets))]
        failed = "--no-failed" not in fl
        missing = "--no-missing" not in fl
        successful = "--successful" in fl
        sel = {nm.index(n) for n in nm if (failed and kinds[n] in ("failed", "canceled")) or (missing and kinds[n] == "missing")
               or (successful and kinds[n] == "successful")}
        clo = {nm[i] for i in _closure(N, blk, sel)}
        mark = w.seq
        if fault_kinds:
            return _faulty(ex, w, out, nm, first, fl, clo, mark)
        r = w.user(["jade", "resubmit-jobs", out] + fl)
        crashed = [e for e in w.events("crash") if e["argv"][:2] == ["jade", "resubmit-jobs"] and e["seq"] > mark]
        if crashed:
            # a failure of the command must not leave the results erased with no way forward
            ex.check(False, "C13: resubmit-jobs crashed", error=[e["error"] for e in crashed])
            r2 = w.user(["jade", "try-submit-jobs", out])
            c = cluster_status(out)
            rows = set(w.result_names(out))
            ex.check(c is not None and (rows >= set(first) or c.config.submitter is None),
                     "C13: failed resubmit-jobs left results erased and no way forward (submitter role never released)",
                     rows=sorted(rows), submitter=getattr(getattr(c, "config", None), "submitter", "?"))
            return False
        if not clo:
            ex.check(not [s for s in w.events("sbatch") if s["seq"] > mark], "C13: nothing selected but a batch was submitted")
        rc2 = {}

        def rc_second(name):
            if name not in rc2:
                rc2[name] = 0 if last else ex.choice("rc2_" + name, 2)
            return rc2[name]

        st = run_to_quiescence(ex, w, out, rc_second, "b" + sfx)
        ex.check(st == "complete", "C13: resubmission did not complete", state=st, round=rnd)
        if st != "complete":
            return False
        launches = [l for l in w.events("launch") if l["seq"] > mark]
        ran = sorted(l["job"] for l in launches)
        # a rerun job that is flagged and whose rerun blocker failed again is canceled without a launch
        expect = sorted(clo)
        if not last:
            cfgd = json.load(open(os.path.join(out, "config.json")))
            flagged = {j["name"] for j in cfgd["jobs"] if j.get("cancel_on_blocking_job_failure")}
            bad = set()
            for i in range(N):  # names are listed in an order compatible with the shapes used here (blockers first)
                n = nm[i]
                if n not in clo:
                    continue
                if n in flagged and any(nm[b] in bad for b in blk.get(i, [])):
                    bad.add(n)
                    continue
                if rc_second(n) != 0:
                    bad.add(n)
            expect = sorted(n for n in clo if not (n in flagged and any(nm[b] in bad for b in blk.get(nm.index(n), []))))
        ex.check(ran == expect, "C13: jobs rerun differ from the selected jobs plus their transitive dependents", ran=ran,
                 want=expect, flags=fl, kinds=kinds, round=rnd)
        for l in launches:
            i = nm.index(l["job"])
            for b in blk.get(i, []):
                if nm[b] in clo:
                    exited = nm[b] in [e["job"] for e in w.events("exit") if mark < e["seq"] < l["seq"]]
                    # (a rerun blocker that was canceled again has no exit; its new canceled row is on disk at the launch)
                    canceled_again = nm[b] not in ran and nm[b] in l["results_on_disk"]
                    ex.check(exited or canceled_again, "C13: resubmitted job started before its rerun blocker finished again",
                             job=l["job"], blocker=nm[b])
        final = {}
        for res in ResultsSummary(out).list_results():
            ex.check(res.name not in final, "C13: two result entries for one job after resubmission", job=res.name)
            final[res.name] = res
        data = json.load(open(os.path.join(out, "results.json")))
        raw = [r_["name"] for r_ in data["results"]]
        ex.check(len(raw) == len(set(raw)), "C13: two result entries for one job after resubmission", results=sorted(raw))
        rows = w.result_names(out)
        ex.check(len(rows) == len(set(rows)), "C13: results file holds two rows for one job after resubmission", rows=sorted(rows))
        ex.check(sorted(list(final) + data["missing_jobs"]) == sorted(nm), "C13: results do not hold one entry per job again",
                 results=sorted(final), missing=data["missing_jobs"], round=rnd)
        for n in nm:
            if n not in clo and n in first:
                # same name, return code, status and times (the property does not speak about the HPC job id column)
                ex.check(n in final and tuple(final[n])[:5] == tuple(first[n])[:5], "C13: result of a job that was not resubmitted changed",
                         job=n, before=tuple(first[n]), after=tuple(final.get(n, ())), round=rnd)
            if n in clo and last:
                ex.check(n in final and final[n].is_successful(), "C13: rerun job has no successful result although it exited 0", job=n)
        if hooks:
            hk = [e for e in w.events("hook") if e["seq"] > mark]
            ex.check(not [e for e in hk if e["argv"][0] == "hook-setup"], "C16: setup command ran again for a resubmission", round=rnd)
            td = [e for e in hk if e["argv"][0] == "hook-teardown"]
            if clo:
                ex.check(len(td) == 1, "C16: teardown command did not run exactly once when the resubmission completed",
                         times=len(td), round=rnd)
            for e in td:
                ex.check(set(final) <= set(e["results_on_disk"]), "C16: teardown command ran before every rerun job had an outcome",
                         have=sorted(set(e["results_on_disk"])), round=rnd)
            for b_ in sorted({l["batch"] for l in launches}, key=str):
                ls = [l for l in launches if l["batch"] == b_]
                ns = [e for e in hk if e["argv"][0] == "hook-node_setup" and e["batch"] == b_]
                nt = [e for e in hk if e["argv"][0] == "hook-node_teardown" and e["batch"] == b_]
                ex.check(len(ns) == 1 and len(nt) == 1, "C16: node setup/teardown command did not run once per batch of a resubmission",
                         batch=b_, setup=len(ns), teardown=len(nt), round=rnd)
                for e in ns:
                    ex.check(e["seq"] < min(l["seq"] for l in ls), "C16: node setup command ran after a job of the batch started")
                for e in nt:
                    ex.check({l["job"] for l in ls} <= set(e["results_on_disk"]),
                             "C16: node teardown command ran before all jobs of the batch ended")
        c = cluster_status(out)
        if not data["missing_jobs"]:
            ex.check(c is not None and c.config.completed_jobs == N and c.config.submitted_jobs == N,
                     "C09/C13: counters after a completed resubmission are not total/total", round=rnd,
                     completed=getattr(getattr(c, "config", None), "completed_jobs", None))
        return True

    def _faulty(ex, w, out, nm, first, fl, clo, mark):
        """One injected error inside resubmit-jobs.  C13's last clause, read literally: the failed command must not leave
        the submission with results erased (rows of the first run pruned from the result files) AND no way forward.  A way
        forward = the documented commands (try-submit-jobs while incomplete, resubmit-jobs once complete) lead to a complete
        submission with one successful entry per job.  Not fault positions (recognised by the effect sequence, not by function
        names): everything from the creation of the round marker (or the round's first scheduler
        command) on - the submission round (C11's subject; fail-stop refusal
        accepted there) and the final role release that follows it."""
        import errno
        import sys
        import filelock
        from jade.result import ResultsSummary

        kind = fault_kinds[ex.choice("fault", len(fault_kinds))]
        st = dict(injected=False, idx=0, script=None)
        from jade.hpc.hpc_submitter import HpcSubmitter

        MARKER = "/" + str(HpcSubmitter.LOCK_FILENAME)  # the round marker: its creation is the round's first act
        STATE_FILES = ("cluster_config.json", "config_version.txt", "job_status.json", "job_status_version.txt")
        w.unlock_observer = None  # C09's consistency clauses are stated for fault-free runs

        def in_cmd(w_):
            return w_.cur is not None and "resubmit-jobs" in w_.cur.name

        def hook(w_, k, detail):
            if _DUMP and in_cmd(w_):
                st.setdefault("seq", []).append("%s:%s" % (k, os.path.basename(str(detail.get("path", "")))[:40]))
            if in_cmd(w_) and (k in ("squeue", "sbatch", "exec") or str(detail.get("path", "")).endswith(MARKER)):
                # the submission round has begun (its first act is the status query): an error raised inside a round is C11's
                # subject, where fail-stop refusal is accepted; the final role release follows the round, so it is no fault
                # position either (no implementation can release the role when the release itself fails)
                st["round_started"] = True
            if st["injected"] or not in_cmd(w_) or st.get("round_started"):
                return
            if (kind, k) not in (("edquot", "write_open"), ("lock_timeout", "lock_acquire")):
                return
            if kind == "edquot" and os.path.basename(str(detail.get("path"))) in STATE_FILES:
                # JADE's designed answer to an error while the shared state files are being written is fail-stop
                # ("state of the cluster is unknown", deliberate deadlock / version mismatch); not a way-forward case.
                if not st.get("noted"):
                    st["noted"] = True
                    ex.note("state_file_write_positions_excluded")
                return
            fire_ = ex.flag("fault_at_%d" % st["idx"])
            st["idx"] += 1
            if not fire_:
                return
            where, f = [], sys._getframe(1)
            while f is not None:
                if "/jade/" in f.f_code.co_filename:
                    where.append(f.f_code.co_name)
                f = f.f_back
            st.update(injected=True, effect=k, detail=os.path.basename(str(detail.get("path"))), where=where[:6])
            if kind == "edquot":
                raise OSError(errno.EDQUOT, "Disk quota exceeded", detail.get("path"))
            raise filelock.Timeout(detail.get("path"))

        def sbatch_policy(w_, script):
            if st["script"] is None and not st["injected"] and in_cmd(w_):
                if ex.flag("sbatch_fails_%d" % st["idx"]):
                    st.update(injected=True, script=script, effect="sbatch", detail=os.path.basename(script))
                st["idx"] += 1
            return st["script"] == script and in_cmd(w_)

        w.track_files = True
        if kind == "sbatch":
            w.sbatch_policy = sbatch_policy
        else:
            w.effect_hook = hook
        r = w.user(["jade", "resubmit-jobs", out] + fl)
        w.effect_hook = None
        w.sbatch_policy = None
        if _DUMP:
            ex.note("SEQ " + ";".join(st.get("seq", [])))
        if not st["injected"]:
            return False  # fault-free resubmissions are the subject of the other obligations
        info = dict(fault=kind, at=st.get("effect"), detail=st.get("detail"), where=st.get("where"), flags=fl, cmd_rc=r.rc)
        ex.note("faults_injected")
        ex.note("fault@%s/%s/%s" % (kind, st.get("detail"), ">".join(reversed((st.get("where") or [])[:3]))))
        pruned = sorted(set(first) - set(w.result_names(out)))

        def recover():
            if os.path.exists(os.path.join(out, "cluster_config.json.lock")):
                w.now += 10  # under M2 a stale marker is broken by the next acquisition
            for attempt in range(5):
                state = run_to_quiescence(ex, w, out, lambda n: 0, "f%d_" % attempt)
                if state != "complete":
                    return False, "submission cannot be completed: " + state
                listed = [r_.name for r_ in ResultsSummary(out).list_results()]
                rows_ = w.result_names(out)
                # every completion reached through the documented commands must again hold one entry per job
                ex.check(len(listed) == len(set(listed)) and len(rows_) == len(set(rows_)),
                         "C13: after a failed resubmit-jobs the completed submission holds two result entries for one job",
                         results=sorted(listed), rows=sorted(rows_), attempt=attempt, **info)
                res = {r_.name: r_ for r_ in ResultsSummary(out).list_results()}
                if attempt > 0 and all(n in res and res[n].is_successful() for n in nm):
                    return True, ""
                w.now += 10
                # attempt 0: the user repeats the request that failed; later: the default flags (failed + missing)
                r2 = w.user(["jade", "resubmit-jobs", out] + (fl if attempt == 0 else []))
                if r2.rc != 0:
                    return False, "a new resubmit-jobs fails: rc=%s %s" % (r2.rc, "".join(r2.err)[-200:])
            return False, "still incomplete results after 5 resubmissions"

        forward, why = recover()
        if _DUMP and not forward:
            for e in w.log[-40:]:
                print("   LOG", {k: (str(v)[:300]) for k, v in e.items() if k not in ("t", "host")}, file=sys.stderr)
        if not forward:
            ex.note("no_way_forward_but_nothing_erased" if not pruned else "no_way_forward")
        if pruned:
            ex.note("faults_after_rows_were_pruned")
        if pruned and not forward:
            ex.note("NWF@%s/%s/%s :: %s" % (kind, st.get("detail"), ">".join(reversed((st.get("where") or [])[:3])), why[:60]))
        ex.check(forward or not pruned, "C13: failed resubmit-jobs left results erased and no way forward", erased=pruned, why=why, **info)
        if forward:
            final = {}
            for r_ in ResultsSummary(out).list_results():
                ex.check(r_.name not in final, "C13: two result entries for one job after a failed and repeated resubmission",
                         job=r_.name, **info)
                final[r_.name] = r_
            rerun = {l["job"] for l in w.events("launch") if l["seq"] > mark}
            for n in nm:
                if n not in rerun and n in first and first[n].is_successful():
                    ex.check(n in final and tuple(final[n])[:5] == tuple(first[n])[:5],
                             "C13: result of a job that was never rerun was lost or changed by a failed resubmit-jobs", job=n,
                             before=tuple(first[n]), after=tuple(final.get(n, ())), **info)
            rows = w.result_names(out)
            ex.check(len(rows) == len(set(rows)), "C13: results file holds two rows for one job after a failed resubmission",
                     rows=sorted(rows), **info)
        ex.reached()
        return False

    return harness
