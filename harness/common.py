"""Shared bootstrap for harnesses: private registry, quiet logging, scratch dirs,
builders for real JADE objects."""
import logging
import os
import shutil
import sys
import tempfile

REPO = os.environ.get("VERIF_REPO", "/repo")
_SCRATCH_ROOT = None


def scratch_root():
    """Per-process scratch root (in /dev/shm when available), removed at exit."""
    global _SCRATCH_ROOT
    pid = os.getpid()
    if _SCRATCH_ROOT is None or _SCRATCH_ROOT[0] != pid:
        base = "/dev/shm" if os.path.isdir("/dev/shm") and os.access("/dev/shm", os.W_OK) else tempfile.gettempdir()
        d = tempfile.mkdtemp(prefix="jade-verif-%d-" % pid, dir=base)
        _SCRATCH_ROOT = (pid, d)
        import atexit

        atexit.register(shutil.rmtree, d, True)
    return _SCRATCH_ROOT[1]


def cleanup_scratch():
    """Remove this process's scratch root (pool workers are ended with os._exit: atexit does not run there)."""
    global _SCRATCH_ROOT
    if _SCRATCH_ROOT is not None and _SCRATCH_ROOT[0] == os.getpid():
        shutil.rmtree(_SCRATCH_ROOT[1], ignore_errors=True)
    _SCRATCH_ROOT = None


def fresh_dir(name="w"):
    d = os.path.join(scratch_root(), name)
    if os.path.exists(d):
        shutil.rmtree(d)
    os.makedirs(d)
    return d


def bootstrap():
    """Import-time environment for the code under test."""
    if "JADE_REGISTRY" not in os.environ or not os.environ["JADE_REGISTRY"].startswith(scratch_root()):
        os.environ["JADE_REGISTRY"] = os.path.join(scratch_root(), "registry.json")
    os.environ.setdefault("MPLCONFIGDIR", os.path.join(scratch_root(), "mpl"))
    logging.disable(logging.CRITICAL)
    if REPO not in sys.path:
        sys.path.insert(0, REPO)
    import jade.utils.timing_utils as tu

    def _timed(func, log_func, *args, **kwargs):  # no time.time noise, no formatting
        return func(*args, **kwargs)

    tu._timed = _timed
    from jade.extensions.registry import Registry

    Registry()  # creates the private registry file once


def slurm_group(name="default", walltime="4:00:00", account="acct", **params):
    """dict for a real SubmissionGroup with SLURM hpc_config."""
    hpc = dict(account=account, walltime=walltime)
    for k in ("partition", "qos", "mem", "tmp", "nodes", "ntasks", "ntasks_per_node", "gres", "reservation"):
        if k in params:
            hpc[k] = params.pop(k)
    sp = dict(hpc_config=dict(hpc_type="slurm", job_prefix=params.pop("job_prefix", "job"), hpc=hpc),
              resource_monitor_type="none", generate_reports=False, poll_interval=1)
    sp.update(params)
    return dict(name=name, submitter_params=sp)


def local_group(name="default", **params):
    sp = dict(hpc_config=dict(hpc_type="local", hpc={}), resource_monitor_type="none",
              generate_reports=False, poll_interval=1)
    sp.update(params)
    return dict(name=name, submitter_params=sp)


def make_config(jobs, groups, **kw):
    """Real GenericCommandConfiguration from job dicts (name, blocked_by, ...)."""
    from jade.extensions.generic_command import GenericCommandConfiguration, GenericCommandParameters

    config = GenericCommandConfiguration(submission_groups=groups, **kw)
    for j in jobs:
        j = dict(j)
        j.setdefault("command", "true")
        config.add_job(GenericCommandParameters(**j))
    return config


def set_raw(model, **fields):
    """Bypass pydantic validation so that a field holds a symbolic proxy."""
    for k, v in fields.items():
        model.__dict__[k] = v


def names(n):
    return ["j%d" % i for i in range(n)]


class ProcProtocol:
    """The rest of subprocess.Popen's public protocol for the kernels' process stand-ins, so that a refactoring of JADE from
    Popen/call to subprocess.run/check_output (context manager, communicate(input, timeout), wait, kill) meets the same stub.
    Subclasses provide returncode (None while running) and may override communicate."""
    args = ()
    stdout = None
    stderr = None
    stdin = None

    def poll(self):
        return self.returncode

    def wait(self, timeout=None):
        return self.poll()

    def communicate(self, input=None, timeout=None):
        return b"", b""

    def terminate(self):
        pass

    kill = terminate

    def send_signal(self, sig):
        pass

    def __enter__(self):
        return self

    def __exit__(self, *a):
        return False
