"""Registry: which obligations decide which property, at which bounds per tier."""


def _ob(name, module, factory, kwargs, **extra):
    d = dict(name=name, spec=(module, factory, kwargs), bounds=dict(kwargs))
    d.update(extra)
    return d


def k_batch(tier):
    q = [
        _ob("K-batch/count/N3/G1", "harness.k_batch", "k_batch", dict(N=3, G=1, mode="count", states=2)),
        _ob("K-batch/time/N3/G1", "harness.k_batch", "k_batch", dict(N=3, G=1, mode="time", states=2)),
        _ob("K-batch/both/N2/G2", "harness.k_batch", "k_batch", dict(N=2, G=2, mode="both", states=3)),
    ]
    if tier == "quick":
        return q
    return q + [
        _ob("K-batch/count/N3/G2", "harness.k_batch", "k_batch", dict(N=3, G=2, mode="count", states=2)),
    ]


def obligations(prop, tier):
    table = {
        "C01": k_batch,
        "C02": k_batch,
        "C05": k_batch,
        "C06": k_batch,
        "C07": k_batch,
    }
    f = table.get(prop)
    return f(tier) if f else []


PROPERTY_NOTES = {}
