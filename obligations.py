"""Registry: which obligations decide which property, at which bounds per tier."""


def _ob(name, module, factory, kwargs, **extra):
    d = dict(name=name, spec=(module, factory, kwargs), bounds=dict(kwargs), opts=dict(path_seconds=5))
    d.update(extra)
    return d


def k_batch(tier, deep=False):
    """deep: include the 15-minute N=4 time-based obligation (C01 and C07, where batch construction is the subject)."""
    q = [
        _ob("K-batch/count/N3/G1", "harness.k_batch", "k_batch", dict(N=3, G=1, mode="count", states=2)),
        _ob("K-batch/time/N3/G1", "harness.k_batch", "k_batch", dict(N=3, G=1, mode="time", states=2, active_max=1)),
        _ob("K-batch/both/N2/G2", "harness.k_batch", "k_batch", dict(N=2, G=2, mode="both", states=3, active_max=1)),
    ]
    if tier == "quick":
        return q
    return q + [
        _ob("K-batch/time/N3/G1/active2", "harness.k_batch", "k_batch", dict(N=3, G=1, mode="time", states=2, active_max=2)),
        _ob("K-batch/both/N2/G2/active2", "harness.k_batch", "k_batch", dict(N=2, G=2, mode="both", states=3, active_max=2)),
        _ob("K-batch/count/N4/G1", "harness.k_batch", "k_batch", dict(N=4, G=1, mode="count", states=2, active_max=0, sbatch_fail=False)),
    ] + ([_ob("K-batch/time/N4/G1", "harness.k_batch", "k_batch", dict(N=4, G=1, mode="time", states=2, active_max=0, sbatch_fail=False,
                                                                     sym_np=False))] if deep else []) + [
        _ob("K-batch/count/N3/G2", "harness.k_batch", "k_batch", dict(N=3, G=2, mode="count", states=2)),
    ]


def k_queue(tier):
    q = [_ob("K-queue/N3", "harness.k_queue", "k_queue", dict(N=3)),
         _ob("K-queue/N4-fan", "harness.k_queue", "k_queue", dict(N=4, shapes=[[1, 0], [2, 0], [3, 0], [3, 1], [3, 2]])),
         _ob("K-queue/N3/nonmanager", "harness.k_queue", "k_queue", dict(N=3, manager=False))]
    if tier == "quick":
        return q
    return q + [_ob("K-queue/N4", "harness.k_queue", "k_queue", dict(N=4))]


def k_collect(tier):
    return [_ob("K-collect/N%d" % (3 if tier == "quick" else 4), "harness.k_collect", "k_collect", dict(N=3 if tier == "quick" else 4))]


H = "harness.h_submit"
_HO = dict(opts=dict(path_seconds=0), cvc5=False)


def h_submit(tier):
    q = [
        _ob("H-submit/N3", H, "h_submit", dict(shapes=["chain3", "fork3", "join3", "mid3", "tri3"], bss=[1, 2], maxns=[None, 1]), **_HO),
        _ob("H-submit/time", H, "h_submit", dict(shapes=["mid3", "chain3"], bss=[1], maxns=[None, 1], time_based=True,
                                                  fails=False), **_HO),
        _ob("H-submit/G2", H, "h_submit", dict(shapes=["chain3"], bss=[1, 2], maxns=[None], G=2, fails=False), **_HO),
        _ob("H-submit/states", H, "h_submit", dict(shapes=["indep3", "chain3"], bss=[1], maxns=[1, 2], fails=False, cancel_flags=False,
                                                    aliases=["RUNNING", "SUSPENDED", "CONFIGURING"]), **_HO),
        _ob("H-submit/local", H, "h_submit", dict(shapes=["chain3", "join3", "fork3", "rchain3", "mid3"], bss=[3], maxns=[None], local=True,
                                                   procs=2), **_HO),
        _ob("H-submit/procs", H, "h_submit", dict(shapes=["indep3", "fork3"], bss=[3], maxns=[None], fails=False, cancel_flags=False,
                                                   cpus=2), **_HO),
        _ob("H-submit/race", H, "h_submit", dict(shapes=["indep2"], bss=[1], maxns=[None, 1], fails=False, cancel_flags=False,
                                                  round_yields=True), **_HO),
    ]
    if tier == "quick":
        return q
    return q + [
        _ob("H-submit/N3-wide", H, "h_submit", dict(shapes=["chain3", "indep3", "fork3", "join3", "rchain3", "mid3", "tri3"],
                                                     bss=[1, 2, 3], maxns=[None, 1, 2], tas=[True, False]), **_HO),
        _ob("H-submit/G2-wide", H, "h_submit", dict(shapes=["indep3", "chain3", "join3"], bss=[1, 2], maxns=[None, 1], G=2,
                                                     fails=False), **_HO),
        _ob("H-submit/N4", H, "h_submit", dict(shapes=["diamond4", "chain4", "two_chains4"], bss=[2], maxns=[None, 1],
                                                cancel_flags=True), **_HO),
    ]


def h_races(tier, user=True, double=True):
    obs = []
    if user:
        obs.append(_ob("H-submit/user-race", H, "h_submit", dict(shapes=["indep2"], bss=[2], maxns=[None], fails=False, cancel_flags=False,
                                                                 user_round=1), **_HO))
    if double:
        obs.append(_ob("H-submit/double-recovery", H, "h_submit", dict(shapes=["indep2", "indep3"], bss=[1], maxns=[1], fails=False,
                                                                       cancel_flags=False, double_recovery=True), **_HO))
    return obs


def h_dry(tier):
    return [_ob("H-submit/dry-run", H, "h_submit", dict(shapes=["chain3", "indep2", "join3"], bss=[1, 3], maxns=[None, 1],
                                                        dry_run=True, fails=False), **_HO)]


def h_lost(tier):
    q = [_ob("H-submit/lost", H, "h_submit", dict(shapes=["chain3", "fork3"], bss=[1, 2], maxns=[None, 1], lost=True,
                                                  fails=False), **_HO)]
    q.append(_ob("H-submit/lost-fails", H, "h_submit", dict(shapes=["fork3"], bss=[1], maxns=[None], lost=True, fails=True), **_HO))
    if tier == "quick":
        return q
    return q + [_ob("H-submit/lost-wide", H, "h_submit", dict(shapes=["chain3", "fork3", "join3", "cycle2p1"], bss=[1, 2],
                                                             maxns=[None, 1], lost=True, fails=True), **_HO)]


KS = "harness.k_slurm"
KR = "harness.k_reports"


def c18(tier):
    obs = [
        _ob("K-retry", KS, "k_retry", dict(max_retries=4 if tier == "quick" else 6)),
        _ob("K-script", KS, "k_script", {}),
        _ob("K-status/focus", KS, "k_status", dict(lines=0, ws="full")),
        _ob("K-status/multi", KS, "k_status", dict(lines=2, ws="min")),
        _ob("K-sbatch", KS, "k_sbatch", {}),
        _ob("E2-status-table", "harness.q_slurm", "q_status_table", {}, kind="direct", replay=("harness.q_slurm", "replay_direct")),
        _ob("E2-sbatch-regex", "harness.q_slurm", "q_sbatch_regex", {}, kind="direct", replay=("harness.q_slurm", "replay_direct")),
    ]
    if tier == "thorough":
        obs.append(_ob("K-status/multi-full", KS, "k_status", dict(lines=2, ws="full")))
    return obs


def k_tally(tier):
    return [_ob("K-tally", KR, "k_tally", dict(N=3 if tier == "quick" else 4))]


def c20(tier):
    if tier == "quick":
        return [_ob("K-stats", KR, "k_stats", dict(samples=3)),
                _ob("K-stats/wide", KR, "k_stats", dict(samples=2, wide=True)),
                _ob("K-events", KR, "k_events", dict(max_events=2))] + k_tally(tier) + h_lost("quick")[-1:]
    return [_ob("K-stats", KR, "k_stats", dict(samples=4)),
            _ob("K-stats/wide", KR, "k_stats", dict(samples=2, wide=True)),
            _ob("K-events", KR, "k_events", dict(max_events=2)),
            _ob("K-events/3", KR, "k_events", dict(max_events=3, nstamps=3, ndata=2))] + k_tally(tier) + h_lost("quick")[-1:]


KC = "harness.k_config"


def c17(tier):
    return [
        _ob("K-roundtrip", KC, "k_roundtrip", dict(N=2 if tier == "quick" else 3, G=2 if tier == "quick" else 3)),
        _ob("K-config", KC, "k_config", dict(N=2, G=2), **_HO),
        _ob("K-runtime", KC, "k_runtime", dict(N=2 if tier == "quick" else 3, G=2)),
        _ob("K-walltime", KC, "k_walltime", {}),
    ]


HP = "harness.h_pipeline"


def c15(tier):
    q = [_ob("K-stage", HP, "k_stage", dict(max_stages=4 if tier == "quick" else 6)),
         _ob("H-pipeline/2", HP, "h_pipeline", dict(max_stages=2, fails=False), **_HO)]
    if tier == "quick":
        return q
    return q + [_ob("H-pipeline/2-fails", HP, "h_pipeline", dict(max_stages=2, fails=True), **_HO),
                _ob("H-pipeline/3", HP, "h_pipeline", dict(max_stages=3, fails=False, mid_dup=False), **_HO)]


def c14(tier):
    q = [_ob("H-cancel", "harness.h_cancel", "h_cancel", dict(shapes=["indep3", "chain3", "fork3"], maxns=[1, 2], followups=1,
                                                             complete_flag=[True, False]), **_HO),
         _ob("H-cancel/time", "harness.h_cancel", "h_cancel", dict(shapes=["indep3", "chain3"], maxns=[1], followups=1,
                                                                  complete_flag=[True], time_based=[True]), **_HO)]
    if tier == "quick":
        return q
    return q + [_ob("H-cancel/wide", "harness.h_cancel", "h_cancel", dict(shapes=["indep3", "chain3", "join3"], maxns=[1, None],
                                                                         followups=2, complete_flag=[True]), **_HO)]


HR = "harness.h_resubmit"


def c16(tier):
    q = [_ob("H-hooks/hpc", H, "h_submit", dict(shapes=["chain2", "indep2"], bss=[1, 2], maxns=[None], hooks=True, fails=False,
                                                cancel_flags=False), **_HO),
         _ob("H-hooks/G2", H, "h_submit", dict(shapes=["indep2"], bss=[1], maxns=[None], hooks=True, fails=False, G=2,
                                               cancel_flags=False), **_HO),
         _ob("H-hooks/local", H, "h_submit", dict(shapes=["chain2"], bss=[2], maxns=[None], hooks=True, fails=True, local=True,
                                                  procs=1, hook_rcs=[0, 1]), **_HO),
         _ob("H-hooks/hpc-failing", H, "h_submit", dict(shapes=["chain2"], bss=[1], maxns=[None], hooks=True, fails=True,
                                                        hook_rcs=[0, 1]), **_HO)]
    q.append(_ob("H-hooks/resubmit", HR, "h_resubmit", dict(shapes=["chain2"], bss=[1, 2], incomplete=False, second=True, hooks=True,
                                                            flagsets=[[], ["--successful"]]), **_HO))
    if tier == "quick":
        return q
    return q + [_ob("H-hooks/hpc-wide", H, "h_submit", dict(shapes=["chain3", "fork3", "join3"], bss=[1, 2], maxns=[None, 1],
                                                            hooks=True, fails=False, G=2, cancel_flags=False), **_HO)]


def c13(tier):
    q = [_ob("K-closure", HR, "k_closure", dict(N=3)),
         _ob("H-resubmit", HR, "h_resubmit", dict(shapes=["chain3", "join3"], bss=[2]), **_HO)]
    q += [_ob("H-resubmit/fault", HR, "h_resubmit", dict(shapes=["chain3"], bss=[2], incomplete=False,
                                                         flagsets=[[], ["--successful"]],
                                                         fault_kinds=["edquot", "lock_timeout", "sbatch"], lock_mode="M2"), **_HO),
          _ob("H-resubmit/twice", HR, "h_resubmit", dict(shapes=["chain3"], bss=[2], incomplete=False, second=True,
                                                         flagsets=[[], ["--successful"]]), **_HO)]
    if tier == "quick":
        return q
    q = q + [_ob("H-resubmit/fault-wide", HR, "h_resubmit", dict(shapes=["chain3", "join3"], bss=[2], incomplete=False,
                                                                 flagsets=[[], ["--no-failed"], ["--successful"]],
                                                                 fault_kinds=["edquot", "lock_timeout", "sbatch"], lock_mode="M2"), **_HO),
             _ob("H-resubmit/twice-wide", HR, "h_resubmit", dict(shapes=["chain3", "join3"], bss=[2], incomplete=False, second=True,
                                                                 flagsets=[[], ["--successful"], ["--no-missing", "--successful"]]), **_HO)]
    return q + [_ob("H-resubmit/wide", HR, "h_resubmit", dict(shapes=["chain3", "fork3", "join3"], bss=[1, 2]), **_HO),
                _ob("K-closure/N4", HR, "k_closure", dict(N=4, outcomes=2))]


KL = "harness.k_launch"


def c19(tier):
    xs = dict(conditions=["split_len0", "split_len1", "split_len2", "jade_len1_ff", "jade_len1_tf", "jade_len1_ft", "jade_len1_tt"],
              twins=["twin_len2", "jade_twin"], timeout=600)
    if tier == "thorough":
        xs["conditions"] = xs["conditions"] + ["split_len3"]
        xs["timeout"] = 1200
    return [
        _ob("K-launch/split", KL, "k_launch_split", dict(max_len=3 if tier == "quick" else 5)),
        _ob("K-launch/rc", KL, "k_launch_rc", {}),
        _ob("K-launch/real", KL, "k_launch_real", {}),
        _ob("K-launch/nonmanager", KL, "k_launch_nonmanager", {}),
        _ob("H-launch/hpc", H, "h_submit", dict(shapes=["chain2"], bss=[1, 2], maxns=[None], append_flags=True, rcs=[0, 3, 255],
                                                cancel_flags=False), **_HO),
        _ob("H-launch/local", H, "h_submit", dict(shapes=["chain2"], bss=[2], maxns=[None], append_flags=True, rcs=[0, 255], local=True,
                                                  procs=1, cancel_flags=False), **_HO),
        _ob("X-split", "harness.x_split", "x_split", xs, kind="direct", replay=("harness.x_split", "replay_direct")),
    ]


def c08(tier):
    q = [_ob("H-submit/rounds", H, "h_submit", dict(shapes=["chain3", "indep3"], bss=[1], maxns=[None, 1], fails=False, cancel_flags=False),
             **_HO),
         _ob("H-results/2x1x1", "harness.h_results", "h_results", dict(runners=2, appends=1, rounds=1), **_HO),
         _ob("H-results/1x2x2", "harness.h_results", "h_results", dict(runners=1, appends=2, rounds=2), **_HO)]
    if tier == "quick":
        return q
    return q + [_ob("H-results/2x2x1-locks", "harness.h_results", "h_results", dict(runners=2, appends=2, rounds=1, file_ops=False),
                    **_HO)]


def c10(tier):
    q = [_ob("K-version", "harness.h_cluster", "k_version", dict(vmax=5)),
         _ob("H-cluster", "harness.h_cluster", "h_cluster", dict(handles=2, steps=4), **_HO),
         _ob("H-role", "harness.h_role", "h_role", {}, **_HO)] + h_races(tier, user=False)
    if tier == "quick":
        return q
    return q + [_ob("H-cluster/3", "harness.h_cluster", "h_cluster", dict(handles=3, steps=4), **_HO)]


def c11(tier):
    q = [_ob("H-fault", "harness.h_fault", "h_fault", dict(shapes=["indep2", "chain3"], later_attempts=1), **_HO)]
    if tier == "quick":
        return q
    return q + [_ob("H-fault/fork3", "harness.h_fault", "h_fault", dict(shapes=["fork3"], maxns=[None, 1], later_attempts=1), **_HO),
                _ob("H-fault/indep3", "harness.h_fault", "h_fault", dict(shapes=["indep3"], maxns=[None], later_attempts=1), **_HO),
                _ob("H-fault/2-attempts", "harness.h_fault", "h_fault", dict(shapes=["indep2"], later_attempts=2), **_HO)]


def obligations(prop, tier):
    table = {
        "C01": lambda t: k_batch(t, deep=True) + k_queue(t) + h_submit(t) + h_races(t, user=(t == "thorough")),
        "C02": lambda t: k_batch(t) + k_queue(t) + k_collect(t) + h_submit(t),
        "C03": lambda t: h_submit(t) + k_collect(t) + h_races(t, double=(t == "thorough")) + k_tally(t) + [_ob("K-launch/nonmanager", KL, "k_launch_nonmanager", {})],
        "C04": lambda t: k_queue(t) + k_collect(t) + h_submit(t),
        "C05": lambda t: k_batch(t) + h_submit(t) + h_races(t),
        "C06": lambda t: k_batch(t) + k_queue(t) + h_submit(t) + h_races(t, user=False) + [
            _ob("H-submit/squeue-fault", H, "h_submit", dict(shapes=["indep3"], bss=[1], maxns=[1, 2], fails=False, cancel_flags=False,
                                                             squeue_fault=True), **_HO)],
        "C07": lambda t: k_batch(t, deep=True) + h_submit(t) + h_dry(t) + [_ob("K-walltime", KC, "k_walltime", {})],
        "C08": c08,
        "C09": lambda t: k_collect(t) + h_submit(t) + [o for o in c13(t) if o["name"].startswith("H-resubmit") and "fault" not in o["name"]],
        "C10": lambda t: c10(t) + [o for o in c13(t) if o["name"].startswith("H-resubmit")][:1],
        "C11": c11,
        "C12": h_lost,
        "C13": c13,
        "C14": c14,
        "C15": c15,
        "C16": c16,
        "C17": c17,
        "C18": c18,
        "C19": c19,
        "C20": c20,
    }
    f = table.get(prop)
    return f(tier) if f else []


PROPERTY_NOTES = {}
