"""Registry: which obligations decide which property, at which bounds per tier."""


def _ob(name, module, factory, kwargs, **extra):
    d = dict(name=name, spec=(module, factory, kwargs), bounds=dict(kwargs))
    d.update(extra)
    return d


def k_batch(tier):
    q = [
        _ob("K-batch/count/N3/G1", "harness.k_batch", "k_batch", dict(N=3, G=1, mode="count", states=2)),
        _ob("K-batch/time/N3/G1", "harness.k_batch", "k_batch", dict(N=3, G=1, mode="time", states=2)),
        _ob("K-batch/both/N2/G2", "harness.k_batch", "k_batch", dict(N=2, G=2, mode="both", states=3)),
    ]
    if tier == "quick":
        return q
    return q + [
        _ob("K-batch/count/N3/G2", "harness.k_batch", "k_batch", dict(N=3, G=2, mode="count", states=2)),
    ]


H = "harness.h_submit"
_HO = dict(opts=dict(path_seconds=0), cvc5=False)


def h_submit(tier):
    q = [
        _ob("H-submit/N3", H, "h_submit", dict(shapes=["chain3", "fork3", "join3", "mid3"], bss=[1, 2], maxns=[None, 1]), **_HO),
        _ob("H-submit/time", H, "h_submit", dict(shapes=["mid3", "chain3"], bss=[1], maxns=[None, 1], time_based=True,
                                                  fails=False), **_HO),
        _ob("H-submit/G2", H, "h_submit", dict(shapes=["chain3"], bss=[1, 2], maxns=[None], G=2, fails=False), **_HO),
        _ob("H-submit/local", H, "h_submit", dict(shapes=["chain3", "join3", "fork3"], bss=[3], maxns=[None], local=True,
                                                   procs=2), **_HO),
    ]
    if tier == "quick":
        return q
    return q + [
        _ob("H-submit/N3-wide", H, "h_submit", dict(shapes=["chain3", "indep3", "fork3", "join3", "rchain3", "mid3"],
                                                     bss=[1, 2, 3], maxns=[None, 1, 2], tas=[True, False]), **_HO),
        _ob("H-submit/G2-wide", H, "h_submit", dict(shapes=["indep3", "chain3", "join3"], bss=[1, 2], maxns=[None, 1], G=2,
                                                     fails=False), **_HO),
        _ob("H-submit/N4", H, "h_submit", dict(shapes=["diamond4", "chain4", "two_chains4"], bss=[2], maxns=[None, 1],
                                                cancel_flags=True), **_HO),
    ]


def h_dry(tier):
    return [_ob("H-submit/dry-run", H, "h_submit", dict(shapes=["chain3", "indep2", "join3"], bss=[1, 3], maxns=[None, 1],
                                                        dry_run=True, fails=False), **_HO)]


def h_lost(tier):
    q = [_ob("H-submit/lost", H, "h_submit", dict(shapes=["chain3", "fork3"], bss=[1, 2], maxns=[None, 1], lost=True,
                                                  fails=False), **_HO)]
    if tier == "quick":
        return q
    return q + [_ob("H-submit/lost-wide", H, "h_submit", dict(shapes=["chain3", "fork3", "join3", "cycle2p1"], bss=[1, 2],
                                                             maxns=[None, 1], lost=True, fails=True), **_HO)]


def obligations(prop, tier):
    table = {
        "C01": lambda t: k_batch(t) + h_submit(t),
        "C02": lambda t: k_batch(t) + h_submit(t),
        "C03": h_submit,
        "C04": h_submit,
        "C05": lambda t: k_batch(t) + h_submit(t),
        "C06": lambda t: k_batch(t) + h_submit(t),
        "C07": lambda t: k_batch(t) + h_submit(t) + h_dry(t),
        "C09": h_submit,
        "C12": h_lost,
    }
    f = table.get(prop)
    return f(tier) if f else []


PROPERTY_NOTES = {}
