"""The environment model (DESIGN.md section 4): real files in a scratch directory,
virtual processes (threads with baton passing, one running at a time), and stubs at
the *library* level for everything JADE reaches outside the process: subprocess,
time, socket, filelock, uuid, logging configuration.

The real click commands of /repo are executed in-process as virtual processes.
"""
import builtins
import io
import json
import logging
import logging.config
import os
import shlex
import shutil
import socket
import subprocess
import sys
import tempfile
import threading
import time
import traceback
import uuid

import filelock

_W = None  # the world of the path being explored


class ProcessKilled(BaseException):
    """Unwinds a virtual process (kill -9 / end of path)."""


class WorldError(Exception):
    pass


class StepBudget(Exception):
    pass


class Hang(BaseException):
    """A virtual process did not return within the wall-clock deadline (non-termination)."""


# ----------------------------------------------------------------------------- processes
class VProc:
    _ids = 0

    def __init__(self, world, name, host, env, parent=None):
        self.world = world
        self.name = name
        self.host = host
        self.env = dict(env)
        self.parent = parent
        world.pid_counter += 1
        self.pid = world.pid_counter
        self.out = []
        self.err = []
        self.rc = None
        self.thread = None
        self.resume = threading.Event()
        self.blocked = None  # None | ("sleep", wake_at) | ("lock", path, deadline) | ("poll",)
        self.kill = False
        self.done = False
        self.exc = None
        self.children = []
        self.batch = None
        self.dead = False


class _Stream(io.TextIOBase):
    def __init__(self, which, real):
        self.which = which
        self.real = real

    def write(self, s):
        w = _W
        if w is not None and w.cur is not None and w.cur is not w.login:
            (w.cur.out if self.which == 1 else w.cur.err).append(s)
        else:
            self.real.write(s)
        return len(s)

    def flush(self):
        pass

    def isatty(self):
        return False

    def fileno(self):
        return self.real.fileno()


class FakePopen:
    """What subprocess.Popen returns inside the world."""

    def __init__(self, world, argv, rc=None, out="", err="", job=None):
        self.args = argv
        self.returncode = rc
        self._out = out
        self._err = err
        self.job = job
        world.pid_counter += 1
        self.pid = world.pid_counter
        self.stdout = None
        self.stderr = None

    def poll(self):
        if self.job is not None:
            self.job["polls"] += 1
            if self.job["state"] == "exited":
                self.returncode = self.job["rc"]
                self.job["seen"] = True
            return self.returncode
        return self.returncode

    def wait(self, timeout=None):
        if self.job is not None and self.job["state"] != "exited":
            raise WorldError("wait() on a running model job")
        return self.poll()

    def communicate(self, input=None, timeout=None):
        return self._out.encode("utf-8"), self._err.encode("utf-8")

    def terminate(self):
        pass

    kill = terminate

    def __enter__(self):
        return self

    def __exit__(self, *a):
        return False


# ----------------------------------------------------------------------------- the world
class World:
    BASE_ENV_KEYS = ("PATH", "HOME", "USER", "LOGNAME", "JADE_REGISTRY", "MPLCONFIGDIR", "PYTHONHASHSEED", "LANG",
                     "NREL_JADE_VERIF", "TMPDIR")

    def __init__(self, root, ex=None, fine=False, cpus=4, lock_mode="M1", max_steps=4000):
        global _W
        self.root = root
        self.ex = ex
        self.fine = fine
        self.cpus = cpus
        self.lock_mode = lock_mode
        self.now = 1000000.0
        self.pid_counter = 100
        self.uuid_counter = 0
        self.seq = 0
        self.log = []  # external effects, in order
        self.batches = {}  # id -> dict(state, name, script, node)
        self.next_batch_id = 1000
        self.jobs = []  # model job processes
        self.procs = []
        self.cur = None
        self.main_event = threading.Event()
        self.steps = 0
        self.max_steps = max_steps
        self.sbatch_policy = None  # callable(world, script) -> bool fail
        self.squeue_policy = None  # callable(world) -> bool fail
        self.hook_rc = None  # callable(world, argv) -> int
        self.job_command_handler = None
        self.unlock_observer = None
        self.effect_hook = None  # callable(world, kind, detail) called before each effect (kill/fault injection)
        self.in_observer = False
        self.base_env = {k: os.environ[k] for k in self.BASE_ENV_KEYS if k in os.environ}
        self.base_env["TMPDIR"] = os.path.join(root, "tmp")
        os.makedirs(self.base_env["TMPDIR"], exist_ok=True)
        tempfile.tempdir = self.base_env["TMPDIR"]
        self.saved_environ = dict(os.environ)
        self.lock_birth = {}
        self.login = VProc(self, "login", "login1", self.base_env)
        self.cur = self.login
        self._set_environ(self.login.env)
        _W = self

    def machine_cpus(self):
        """Cores of the machine the current virtual process runs on: a compute node of a batch has twice the cores SLURM
        granted the batch (partial allocation); the login node / local mode has `cpus`."""
        p = self.cur
        return self.cpus * 2 if p is not None and getattr(p, "batch", None) is not None else self.cpus

    # ------------------------------------------------------------------ bookkeeping
    def record(self, kind, **kw):
        self.seq += 1
        kw.update(kind=kind, seq=self.seq, t=self.now, proc=self.cur.name if self.cur else None,
                  host=self.cur.host if self.cur else None)
        self.log.append(kw)
        return kw

    def events(self, kind):
        return [e for e in self.log if e["kind"] == kind]

    def effect(self, kind, **detail):
        """Called before every externally visible effect; lets harnesses inject kills/faults."""
        if self.effect_hook is not None and not self.in_observer:
            self.effect_hook(self, kind, detail)

    def _set_environ(self, env):
        cur = os.environ
        for k in list(cur.keys()):
            if k not in env:
                del cur[k]
        for k, v in env.items():
            if cur.get(k) != v:
                cur[k] = v

    def _switch(self, proc):
        """Make proc the current virtual process of this thread (env swap)."""
        if self.cur is not None:
            self.cur.env = dict(os.environ)
        self.cur = proc
        if proc is not None:
            self._set_environ(proc.env)

    def tick(self):
        self.steps += 1
        if self.steps > self.max_steps:
            raise StepBudget("world step budget %d exceeded" % self.max_steps)

    # ------------------------------------------------------------------ running real commands
    def _dispatch_jade(self, argv):
        """Run the real click group for argv; returns exit status."""
        if argv[0] == "jade":
            from jade.cli.jade import cli
        elif argv[0] == "jade-internal":
            from jade.cli.jade_internal import cli
        else:
            raise WorldError("not a jade command: %r" % (argv,))
        try:
            cli.main(args=list(argv[1:]), prog_name=argv[0], standalone_mode=False)
            return 0
        except SystemExit as e:
            code = e.code
            if code is None:
                return 0
            if isinstance(code, int):
                return code
            sys.stderr.write(str(code) + "\n")
            return 1
        except ProcessKilled:
            raise
        except Exception as e:
            import click

            if isinstance(e, click.ClickException):
                sys.stderr.write("Error: %s\n" % e.format_message())
                return e.exit_code
            if isinstance(e, click.exceptions.Abort):
                return 1
            sys.stderr.write(traceback.format_exc())
            self.record("crash", argv=list(argv), error="%s: %s" % (type(e).__name__, str(e)[:200]))
            return 1

    def run_child(self, argv, env=None):
        """A child process of the current virtual process, run synchronously in this thread."""
        parent = self.cur
        parent.env = dict(os.environ)
        child = VProc(self, "%s>%s" % (parent.name, " ".join(argv[:2])), parent.host, env if env is not None else parent.env,
                      parent=parent)
        child.thread = parent.thread
        child.batch = parent.batch
        parent.children.append(child)
        self.cur = child
        self._set_environ(child.env)
        try:
            child.rc = self._dispatch_jade(argv)
        except ProcessKilled:
            if self.kill_target is not child:
                raise  # the whole process tree of this thread dies
            self._finish_kill(child)
        finally:
            child.done = True
            self.cur = parent
            self._set_environ(parent.env)
        return child

    def kill_here(self, whole_thread=False):
        """kill -9 of the current virtual process at this very point (called from an effect hook).
        The file system and the effect log are snapshotted now and restored once the Python stack has unwound,
        so finally:/except: clauses of the dying process leave no trace."""
        target = self.cur
        if whole_thread:
            while target.parent is not None:
                target = target.parent
        self.kill_target = target
        self.in_observer = True
        self.kill_snapshot = self.snapshot()
        raise ProcessKilled()

    def _finish_kill(self, proc):
        snap, self.kill_snapshot = self.kill_snapshot, None
        if snap is not None:
            self.restore(snap)
        self.in_observer = False
        self.kill_target = None
        proc.rc = -9
        proc.dead = True
        for c in proc.children:
            c.dead = True
        self.record("killed", proc=proc.name)

    def user(self, argv, host="login1", env=None):
        """A command typed by the user on a login node; runs to completion on the calling (scheduler) thread."""
        p = VProc(self, "user:" + " ".join(argv[:2]), host, dict(self.base_env, **(env or {})))
        self.procs.append(p)
        prev = self.cur
        if prev is not None:
            prev.env = dict(os.environ)
        self.cur = p
        self._set_environ(p.env)
        try:
            import threading as _t

            if _t.current_thread() is _t.main_thread():
                p.rc = self.with_deadline(lambda: self._dispatch_jade(argv))
            else:
                p.rc = self._dispatch_jade(argv)
        except ProcessKilled:
            self._finish_kill(p)
        finally:
            p.done = True
            self.cur = prev
            if prev is not None:
                self._set_environ(prev.env)
        return p

    # ------------------------------------------------------------------ threads (compute nodes, concurrent users)
    def spawn(self, name, host, env, fn, batch=None):
        """Start a virtual process on its own thread; runs until it first blocks or ends."""
        p = VProc(self, name, host, env)
        p.batch = batch
        self.procs.append(p)

        def body():
            p.resume.wait()
            p.resume.clear()
            self.cur = p
            self._set_environ(p.env)
            try:
                if p.kill:
                    raise ProcessKilled()
                p.rc = fn()
            except ProcessKilled:
                if self.kill_target is p:
                    self._finish_kill(p)
                p.rc = -9
                p.dead = True
            except BaseException as e:  # includes jsym PathAbort: re-raised on the scheduler thread
                p.exc = e
                p.rc = 1
            finally:
                p.done = True
                p.blocked = None
                p.env = dict(os.environ)
                self.main_event.set()

        p.thread = threading.Thread(target=body, daemon=True, name=name)
        p.thread.start()
        self.resume_proc(p)
        return p

    def resume_proc(self, p):
        """Scheduler: give the baton to p until it blocks again or ends."""
        if p.done:
            return
        self.tick()
        prev = self.cur
        if prev is not None:
            prev.env = dict(os.environ)
        p.blocked = None
        self.main_event.clear()
        p.resume.set()
        if not self._wait_cpu(p):
            self._abandon(p)
            self.cur = prev
            if prev is not None:
                self._set_environ(prev.env)
            raise Hang("virtual process %s did not yield or finish within %s s" % (p.name, self.deadline_s))
        self.cur = prev
        if prev is not None:
            self._set_environ(prev.env)
        if p.exc is not None:
            e, p.exc = p.exc, None
            if not isinstance(e, Exception):
                raise e  # jsym control flow raised inside the virtual process
            raise WorldError("virtual process %s died of %r" % (p.name, e)) from e

    @staticmethod
    def _thread_cpu(thread):
        try:
            f = open("/proc/self/task/%d/stat" % thread.native_id).read().rsplit(")", 1)[1].split()
            return (int(f[11]) + int(f[12])) / os.sysconf("SC_CLK_TCK")
        except Exception:
            return None

    def _wait_cpu(self, p):
        """Wait for the baton; False if the process burnt deadline_s of CPU time without yielding
        (CPU time, not wall time, so that a loaded machine cannot cause a false 'did not terminate')."""
        start = self._thread_cpu(p.thread)
        t0 = _REAL["time"]()
        while True:
            if self.main_event.wait(1.0):
                return True
            cpu = self._thread_cpu(p.thread)
            if start is not None and cpu is not None and cpu - start > self.deadline_s:
                return False
            if _REAL["time"]() - t0 > 60 * self.deadline_s:
                return False

    def _abandon(self, p):
        """Stop a spinning virtual process: raise ProcessKilled asynchronously in its thread."""
        import ctypes

        p.kill = True
        p.dead = True
        if p.thread is not None and p.thread.is_alive():
            ctypes.pythonapi.PyThreadState_SetAsyncExc(ctypes.c_ulong(p.thread.ident), ctypes.py_object(ProcessKilled))
            self.main_event.clear()
            self.main_event.wait(5)
        p.done = True

    def with_deadline(self, fn):
        """Run fn on the calling (scheduler) thread under the wall-clock deadline."""
        import signal

        def on_alarm(*_):
            raise Hang("command did not return within %s s" % self.deadline_s)

        old = signal.signal(signal.SIGPROF, on_alarm)
        signal.setitimer(signal.ITIMER_PROF, self.deadline_s, 0.5)  # CPU time of this process; re-fires
        try:
            return fn()
        finally:
            signal.setitimer(signal.ITIMER_PROF, 0)
            signal.signal(signal.SIGPROF, old)

    def block(self, reason):
        """Called on a virtual-process thread: hand the baton back to the scheduler."""
        p = self._thread_proc()
        if p is None:
            raise WorldError("block() outside a threaded virtual process")
        cur = self.cur
        cur.env = dict(os.environ)
        p.blocked = reason
        self.main_event.set()
        p.resume.wait()
        p.resume.clear()
        self.cur = cur
        self._set_environ(cur.env)
        if p.kill:
            raise ProcessKilled()

    def _thread_proc(self):
        t = threading.current_thread()
        for p in self.procs:
            if p.thread is t and not p.done and p.parent is None:
                return p
        return None

    def kill_proc(self, p):
        """kill -9: the process never executes another instruction that has an outside effect."""
        if p.done:
            return
        p.kill = True
        prev = self.cur
        if prev is not None:
            prev.env = dict(os.environ)
        self.in_observer = True  # effects of finally:/except: clauses while unwinding are discarded below
        snap = None
        try:
            snap = self.snapshot()
            p.blocked = None
            self.main_event.clear()
            p.resume.set()
            self.main_event.wait()
        finally:
            if snap is not None:
                self.restore(snap)
            self.in_observer = False
            self.cur = prev  # the killer (e.g. the process that ran scancel) carries on as itself
            if prev is not None:
                self._set_environ(prev.env)
        p.dead = True

    def snapshot(self):
        d = os.path.join(os.path.dirname(self.root), "snap-%d" % self.seq)
        if os.path.exists(d):
            shutil.rmtree(d)
        shutil.copytree(self.root, d, symlinks=True)
        return (d, len(self.log), {k: dict(v) for k, v in self.batches.items()}, [dict(j) for j in self.jobs])

    def restore(self, snap):
        d, nlog, batches, jobs = snap
        shutil.rmtree(self.root)
        os.rename(d, self.root)
        del self.log[nlog:]
        for k, v in batches.items():
            node = self.batches[k].get("node")
            self.batches[k].update(v)
        for j, old in zip(self.jobs, jobs):
            j.update(old)
        del self.jobs[len(jobs):]

    # ------------------------------------------------------------------ time
    def sleep(self, seconds):
        self.tick()
        p = self._thread_proc()
        if p is not None and (self.fine or self._is_poll_sleep()):
            wake = self.now + seconds
            self.block(("sleep", wake))
            self.now = max(self.now, wake)
        else:
            self.now += seconds

    @staticmethod
    def _is_poll_sleep():
        f = sys._getframe(3)
        return f.f_code.co_name == "wait" and f.f_code.co_filename.endswith("job_queue.py")

    # ------------------------------------------------------------------ scheduler model (SLURM)
    def parse_submission(self, script):
        text = open(script).read()
        srun = [l for l in text.split("\n") if l.startswith("srun ")]
        info = dict(script=script, text=text, run_script=None, run_cmd=None, config_file=None, jobs=None, sbatch_opts={})
        for l in text.split("\n"):
            if l.startswith("#SBATCH "):
                k, _, v = l[len("#SBATCH "):].partition("=")
                info["sbatch_opts"].setdefault(k, []).append(v)
        body = [l for l in text.split("\n") if l.strip() and not l.startswith("#")]
        cand = srun[-1] if srun else (body[-1] if body else "")
        # the batch's run script: the first word of the launch line that is an existing file (srun options are tolerated)
        files = [t for t in shlex.split(cand) if os.path.isfile(t)] if cand else []
        if files:
            info["run_script"] = files[0]
            if os.path.exists(info["run_script"]):
                lines = [l for l in open(info["run_script"]).read().split("\n") if l.strip() and not l.startswith("#")]
                info["run_text"] = lines
                if lines:
                    info["run_cmd"] = shlex.split(lines[-1])
                    for a in info["run_cmd"]:
                        if a.endswith(".json") and os.path.exists(a):
                            info["config_file"] = a
                            info["jobs"] = [j["name"] for j in json.load(open(a)).get("jobs", [])]
        return info

    def _sbatch(self, argv):
        script = argv[1]
        self.effect("sbatch", script=script)
        fail = bool(self.sbatch_policy(self, script)) if self.sbatch_policy else False
        info = self.parse_submission(script)
        if fail:
            self.record("sbatch", ok=False, **{k: info[k] for k in ("script", "jobs", "config_file", "sbatch_opts", "run_cmd")})
            return 1, "", "sbatch: error: Batch job submission failed: Socket timed out on send/recv operation\n"
        self.next_batch_id += 1
        bid = str(self.next_batch_id)
        active = [b for b in self.batches.values() if b["state"] in ("PENDING", "RUNNING")]
        self.batches[bid] = dict(id=bid, state="PENDING", info=info, node=None, submitted_by=self.cur.name)
        self.record("sbatch", ok=True, id=bid, active_after=len(active) + 1,
                    **{k: info[k] for k in ("script", "jobs", "config_file", "sbatch_opts", "run_cmd")})
        return 0, "Submitted batch job %s\n" % bid, ""

    def _squeue(self, argv):
        self.effect("squeue")
        fail = bool(self.squeue_policy(self)) if self.squeue_policy else False
        self.record("squeue", ok=not fail)
        if fail:
            return 1, "", "slurm_load_jobs error: Socket timed out on send/recv operation\n"
        fmt = argv[argv.index("--Format") + 1].split(",")
        only = argv[argv.index("-j") + 1] if "-j" in argv else None
        names = {"PENDING": "PENDING", "RUNNING": "RUNNING"}
        rows = []
        for bid, b in self.batches.items():
            if b["state"] not in names or (only is not None and bid != only):
                continue
            vals = dict(jobid=bid, name=os.path.basename(b["info"]["script"])[:-3],
                        state=b.get("alias") if b["state"] == "RUNNING" and b.get("alias") else names[b["state"]])
            rows.append("".join("%-20s" % vals[f] for f in fmt))
        if only is not None and only not in self.batches:
            return 1, "", "slurm_load_jobs error: Invalid job id specified\n"
        return 0, "".join(r + "\n" for r in rows), ""

    def _scancel(self, argv):
        bid = argv[1]
        self.effect("scancel", id=bid)
        self.record("scancel", id=bid)
        b = self.batches.get(bid)
        if b is None:
            return 1, "", "scancel: error: Invalid job id\n"
        if b["state"] == "PENDING":
            b["state"] = "CANCELLED"
        elif b["state"] == "RUNNING":
            self.kill_batch(bid, "CANCELLED")
        else:
            return 1, "", "scancel: error: Kill job error on job id %s: Invalid job id specified\n" % bid  # already gone
        return 0, "", ""

    def kill_batch(self, bid, state="TIMEOUT"):
        b = self.batches[bid]
        node = b.get("node")
        b["state"] = state
        for j in self.jobs:
            if j["batch"] == bid and j["state"] == "running":
                j["state"] = "killed"
        if node is not None and not node.done:
            self.kill_proc(node)
        self.record("batch_killed", id=bid, state=state)

    def start_batch(self, bid):
        """Scheduler event: a pending batch gets its node."""
        b = self.batches[bid]
        assert b["state"] == "PENDING"
        b["state"] = "RUNNING"
        info = b["info"]
        env = dict(self.base_env, SLURM_JOB_ID=bid, SLURM_NODEID="0", SLURM_CPUS_ON_NODE=str(self.cpus),
                   SLURM_JOB_NAME=os.path.basename(info["script"])[:-3],
                   LOCAL_SCRATCH=os.path.join(self.root, "scratch-" + bid))
        os.makedirs(env["LOCAL_SCRATCH"], exist_ok=True)
        self.record("batch_start", id=bid)

        def body():
            rc = 0
            for line in info.get("run_text") or []:
                argv = shlex.split(line)
                if argv and argv[0] in ("jade", "jade-internal"):
                    rc = self._dispatch_jade(argv)
            return rc

        b["node"] = None
        node = self.spawn("node-" + bid, "node" + bid, env, body, batch=bid)
        b["node"] = node
        self._reap(bid)
        return node

    def _reap(self, bid):
        b = self.batches[bid]
        node = b["node"]
        if node is not None and node.done and b["state"] == "RUNNING":
            b["state"] = "COMPLETED" if not node.dead else "FAILED"
            b["rc"] = node.rc
            self.record("batch_end", id=bid, rc=node.rc, stderr="".join(node.err)[-600:])

    def poll_node(self, bid):
        """Scheduler event: the node's queue loop wakes from its poll sleep."""
        b = self.batches[bid]
        node = b["node"]
        while True:
            before = self.seq
            self.resume_proc(node)
            b["progress"] = self.seq != before
            self._reap(bid)
            if node.done or not b["progress"] or not self.poll_fixpoint:
                break
            if node.blocked and node.blocked[0] == "yield":
                break  # pre-empted inside its submitter round: the scheduler decides who runs next

    # model job processes
    def _launch_job(self, argv, env, stdout, stderr):
        name = env.get("JADE_JOB_NAME")
        self.effect("launch", job=name)
        job = dict(name=name, argv=list(argv), env={k: v for k, v in env.items() if k.startswith(("JADE_", "SLURM_JOB_ID"))},
                   batch=self.cur.batch, host=self.cur.host, state="running", rc=None, polls=0, seen=False,
                   stdout=getattr(stdout, "name", None), stderr=getattr(stderr, "name", None),
                   results_on_disk=self.result_names(env.get("JADE_RUNTIME_OUTPUT")))
        self.jobs.append(job)
        ev = self.record("launch", job=name, batch=job["batch"], argv=list(argv), results_on_disk=job["results_on_disk"],
                         running=sum(1 for j in self.jobs if j["state"] == "running" and j["host"] == job["host"]))
        job["seq"] = ev["seq"]
        return FakePopen(self, argv, job=job)

    def exit_job(self, job, rc):
        assert job["state"] == "running"
        job["state"] = "exited"
        job["rc"] = rc
        self.record("exit", job=job["name"], rc=rc if isinstance(rc, int) else None)

    @staticmethod
    def result_names(output):
        """Names that have a result row on disk right now (node files + consolidated file)."""
        names = []
        if not output or not os.path.isdir(output):
            return names
        files = [os.path.join(output, "processed_results.csv")]
        rd = os.path.join(output, "results")
        if os.path.isdir(rd):
            files += [os.path.join(rd, f) for f in sorted(os.listdir(rd)) if f.endswith(".csv")]
        for f in files:
            try:
                with open(f) as fh:
                    for i, line in enumerate(fh):
                        if i and line.strip():
                            names.append(line.split(",", 1)[0])
            except FileNotFoundError:
                pass
        return names

    # ------------------------------------------------------------------ subprocess boundary
    def popen(self, argv, env=None, stdout=None, stderr=None, cwd=None, **kw):
        if isinstance(argv, str):
            argv = shlex.split(argv)
        argv = [str(a) for a in argv]
        prog = os.path.basename(argv[0])
        if prog == "sbatch":
            rc, out, err = self._sbatch(argv)
        elif prog == "squeue":
            rc, out, err = self._squeue(argv)
        elif prog == "scancel":
            rc, out, err = self._scancel(argv)
        elif prog in ("jade", "jade-internal"):
            self.effect("exec", argv=argv)
            child = self.run_child([prog] + argv[1:], env=dict(env) if env is not None else None)
            rc, out, err = child.rc, "".join(child.out), "".join(child.err)
            self.record("child", argv=argv, rc=rc, stderr=err[-400:])
        elif prog == "git":
            out = {"diff": "", "log": "commit 0000000\n", "rev-parse": "main\n", "status": ""}.get(argv[1], "")
            rc, err = 0, ""
        elif prog.startswith("hook-"):
            self.effect("hook", argv=argv)
            rc = int(self.hook_rc(self, argv)) if self.hook_rc else 0
            e = env if env is not None else os.environ
            self.record("hook", argv=argv, rc=rc, env={k: v for k, v in e.items() if k.startswith("JADE_")},
                        batch=self.cur.batch, results_on_disk=self.result_names(e.get("JADE_RUNTIME_OUTPUT")))
            out, err = "", ""
        elif stdout is not None and stdout is not subprocess.PIPE and env is not None and "JADE_JOB_NAME" in env:
            return self._launch_job(argv, env, stdout, stderr)
        elif self.job_command_handler is not None:
            rc, out, err = self.job_command_handler(self, argv, env)
        else:
            raise WorldError("unmodelled external command %r" % (argv,))
        return FakePopen(self, argv, rc=rc, out=out, err=err)

    # ------------------------------------------------------------------ teardown
    def close(self):
        """End of path: unwind every live virtual process, restore the real environment."""
        global _W
        self.effect_hook = None
        self.in_observer = True
        for p in self.procs:
            if p.thread is not None and not p.done and p.parent is None:
                p.kill = True
                p.blocked = None
                self.main_event.clear()
                p.resume.set()
                self.main_event.wait(5)
        for p in self.procs:
            if p.thread is not None and p.parent is None and p.thread.is_alive():
                p.thread.join(2)
        self.cur = None
        self._set_environ(self.saved_environ)
        logging.disable(logging.CRITICAL)
        _W = None


# ----------------------------------------------------------------------------- library-level stubs
_REAL = {}


class ModelSoftLock:
    """acquire/release for filelock.SoftFileLock: an existence-marker lock on the same real files.

    M1: markers are never broken.  M2: a marker whose owner is a dead virtual process on the
    same host, or an empty marker older than 2 s of virtual time, is removed (filelock >= 3.13)."""

    @staticmethod
    def acquire(self, timeout=None, poll_interval=0.05, **kw):
        w = _W
        if w is None:
            return _REAL["acquire"](self, timeout=timeout, poll_interval=poll_interval, **kw)
        path = str(self.lock_file)
        if timeout is None:
            timeout = self.timeout
        if getattr(self, "_verif_count", 0) > 0:
            self._verif_count += 1
            return _Proxy(self)
        w.effect("lock_acquire", path=path)
        deadline = None if timeout is None or timeout < 0 else w.now + timeout
        while True:
            try:
                fd = _REAL["os_open"](path, os.O_WRONLY | os.O_CREAT | os.O_EXCL | os.O_TRUNC, 0o644)
                os.write(fd, ("%d\n%s\n" % (w.cur.pid, w.cur.host)).encode())
                os.close(fd)
                break
            except FileExistsError:
                pass
            if w.lock_mode == "M2" and ModelSoftLock._stale(w, path):
                try:
                    os.unlink(path)
                    w.record("lock_broken", path=path)
                except FileNotFoundError:
                    pass
                continue
            p = w._thread_proc()
            others = p is not None and any((q is not p) and not q.done for q in w.procs if q.thread is not None and q.parent is None)
            if p is None or not w.fine or not others:
                # nobody can release it while we wait: jump to the timeout
                if deadline is None:
                    raise WorldError("deadlock on %s with infinite timeout" % path)
                w.now = max(w.now, deadline)
                w.record("lock_timeout", path=path)
                raise filelock.Timeout(path)
            if deadline is not None and w.now >= deadline:
                w.record("lock_timeout", path=path)
                raise filelock.Timeout(path)
            w.block(("lock", path, deadline))
            if w.now < (deadline or w.now) and os.path.exists(path):
                w.now = min(deadline, w.now + max(poll_interval, 1.0)) if deadline is not None else w.now + 1.0
        self._verif_count = 1
        w.record("lock", path=os.path.basename(path))
        return _Proxy(self)

    @staticmethod
    def _stale(w, path):
        try:
            text = open(path).read()
            st = os.stat(path)
        except FileNotFoundError:
            return False
        lines = text.split("\n")
        if len(lines) < 2 or not lines[0].strip().isdigit():
            return w.now - w.lock_birth.get(path, w.now) > 2  # empty/malformed marker older than 2 s
        pid, host = int(lines[0]), lines[1].strip()
        if host != w.cur.host:
            return False
        for p in w.procs + [q for pr in w.procs for q in pr.children]:
            if p.pid == pid:
                return p.dead or p.done  # the owner's pid no longer exists on this host
        return False

    @staticmethod
    def release(self, force=False):
        w = _W
        if w is None:
            return _REAL["release"](self, force=force)
        c = getattr(self, "_verif_count", 0)
        if c == 0:
            return
        if c > 1 and not force:
            self._verif_count = c - 1
            return
        self._verif_count = 0
        path = str(self.lock_file)
        w.effect("lock_release", path=path)
        try:
            os.unlink(path)
        except FileNotFoundError:
            pass
        w.record("unlock", path=os.path.basename(path))
        w.effect("lock_released", path=path)  # after the marker is gone: a safe pre-emption point
        if w.unlock_observer is not None and not w.in_observer and not w.cur.kill:
            w.in_observer = True
            try:
                w.unlock_observer(w, path)
            finally:
                w.in_observer = False

    @staticmethod
    def is_locked(self):
        if _W is None:
            return _REAL["is_locked"].fget(self)
        return getattr(self, "_verif_count", 0) > 0


class _Proxy:
    def __init__(self, lock):
        self.lock = lock

    def __enter__(self):
        return self.lock

    def __exit__(self, *a):
        self.lock.release()


KERNEL = dict(sleep=None, popen=None, now=None)  # overrides for kernel harnesses that run without a World


def _time():
    if _W is not None:
        return _W.now
    if KERNEL["now"] is not None:
        return KERNEL["now"]()
    return _REAL["time"]()


def _sleep(s):
    if _W is None:
        if KERNEL["sleep"] is not None:
            return KERNEL["sleep"](s)
        return _REAL["sleep"](s)
    _W.sleep(s)


def _popen(argv, *a, **kw):
    if _W is None:
        if KERNEL["popen"] is not None:
            return KERNEL["popen"](argv, *a, **kw)
        return _REAL["Popen"](argv, *a, **kw)
    return _W.popen(argv, **kw)


def _call(argv, *a, **kw):
    if _W is None:
        if KERNEL["popen"] is not None:
            return KERNEL["popen"](argv, *a, **kw).returncode
        return _REAL["call"](argv, *a, **kw)
    return _W.popen(argv, **kw).returncode


def _gethostname():
    return _W.cur.host if _W is not None and _W.cur is not None else _REAL["gethostname"]()


def _uuid4():
    if _W is None:
        return _REAL["uuid4"]()
    _W.uuid_counter += 1
    return uuid.UUID(int=(0x4000 << 64) | _W.uuid_counter)


def _dict_config(cfg):
    if _W is None:
        return _REAL["dictConfig"](cfg)
    if _W.logging_real:
        return _REAL["dictConfig"](cfg)


_MARKER = []


def _round_marker_name():
    if not _MARKER:
        try:
            from jade.hpc.hpc_submitter import HpcSubmitter

            _MARKER.append(str(HpcSubmitter.LOCK_FILENAME))
        except Exception:
            _MARKER.append("submitter.lock")
    return _MARKER[0]


def _file_effect(kind, path, **kw):
    """File mutations are effect points (kill / fault injection, fine-grained pre-emption)."""
    w = _W
    if w is None or not w.track_files or w.in_observer:
        return
    try:
        path = os.fspath(path)
    except TypeError:
        return
    if isinstance(path, bytes) or not str(path).startswith(w.root):
        return
    if str(path).endswith(".lock") and os.path.basename(str(path)) != _round_marker_name():
        return  # filelock markers are reported as lock effects (JADE's own round marker submitter.lock is an ordinary file)
    w.effect(kind, path=str(path), **kw)


def _open(file, mode="r", *a, **kw):
    if _W is not None and _W.track_files and isinstance(mode, str) and any(c in mode for c in "wax+"):
        _file_effect("write_open", file, mode=mode)
    elif _W is not None and _W.track_files and _W.track_reads:
        _file_effect("read_open", file, mode=mode)
    return _REAL["open"](file, mode, *a, **kw)


def _os_open(path, flags, *a, **kw):
    if _W is not None and _W.track_files and flags & (os.O_WRONLY | os.O_RDWR | os.O_CREAT):
        _file_effect("write_open", path, mode="os.open")
    if _W is not None and str(path).endswith(".lock"):
        _W.lock_birth[str(path)] = _W.now  # a marker created by JADE itself (deliberate deadlock): empty, no owner
    return _REAL["os_open"](path, flags, *a, **kw)


def _remove(path, *a, **kw):
    _file_effect("remove", path)
    return _REAL["remove"](path, *a, **kw)


def _unlink(path, *a, **kw):
    _file_effect("remove", path)
    return _REAL["unlink"](path, *a, **kw)


def _rename(src, dst, *a, **kw):
    _file_effect("rename", src, dst=str(dst))
    return _REAL["rename"](src, dst, *a, **kw)


def install():
    """Patch the library boundaries once per process (before or after importing jade)."""
    if _REAL:
        return
    _REAL.update(open=builtins.open, os_open=os.open, remove=os.remove, unlink=os.unlink, rename=os.rename)
    builtins.open = _open
    os.open = _os_open
    os.remove = _remove
    os.unlink = _unlink
    os.rename = _rename
    import io as _io

    _io.open = _open
    _REAL.update(time=time.time, sleep=time.sleep, Popen=subprocess.Popen, call=subprocess.call,
                 gethostname=socket.gethostname, uuid4=uuid.uuid4, dictConfig=logging.config.dictConfig,
                 acquire=filelock.SoftFileLock.acquire, release=filelock.SoftFileLock.release,
                 is_locked=filelock.SoftFileLock.is_locked)
    time.time = _time
    time.sleep = _sleep
    subprocess.Popen = _popen
    subprocess.call = _call
    socket.gethostname = _gethostname
    uuid.uuid4 = _uuid4
    logging.config.dictConfig = _dict_config
    filelock.SoftFileLock.acquire = ModelSoftLock.acquire
    filelock.SoftFileLock.release = ModelSoftLock.release
    filelock.SoftFileLock.is_locked = property(ModelSoftLock.is_locked)
    sys.stdout = _Stream(1, sys.stdout)
    sys.stderr = _Stream(2, sys.stderr)
    import multiprocessing

    _REAL["cpu_count"] = multiprocessing.cpu_count
    _REAL["os_cpu_count"] = os.cpu_count
    # the machine has more cores than the batch's allocation (a shared node): the node's CPU count for a SLURM batch is what
    # SLURM grants it (SLURM_CPUS_ON_NODE); in local mode the machine count is the node's count
    multiprocessing.cpu_count = lambda: _W.machine_cpus() if _W is not None else _REAL["cpu_count"]()
    os.cpu_count = lambda: _W.machine_cpus() if _W is not None else _REAL["os_cpu_count"]()


World.logging_real = False
World.kill_target = None
World.kill_snapshot = None
World.track_files = False
World.track_reads = False
World.deadline_s = 6
World.poll_fixpoint = True
