"""Small reference models used as oracles (each well under 50 lines)."""


def ref_split(s):
    """POSIX word splitting and quote removal as Python's shlex defines its POSIX mode
    (no comments, no punctuation chars): whitespace separates words; '...' is literal; inside
    "..." a backslash escapes only '"' and '\\'; outside quotes a backslash escapes any character.
    Raises ValueError for an unterminated quote or a trailing backslash."""
    words, cur, have = [], [], False
    i, n = 0, len(s)
    while i < n:
        c = s[i]
        if c in " \t\r\n":
            if have:
                words.append("".join(cur))
                cur, have = [], False
            i += 1
        elif c == "\\":
            if i + 1 >= n:
                raise ValueError("No escaped character")
            cur.append(s[i + 1])
            have = True
            i += 2
        elif c == "'":
            j = s.find("'", i + 1)
            if j < 0:
                raise ValueError("No closing quotation")
            cur.append(s[i + 1:j])
            have = True
            i = j + 1
        elif c == '"':
            i += 1
            while True:
                if i >= n:
                    raise ValueError("No closing quotation")
                d = s[i]
                if d == '"':
                    i += 1
                    break
                if d == "\\":
                    if i + 1 >= n:
                        raise ValueError("No closing quotation")
                    if s[i + 1] in '"\\':
                        cur.append(s[i + 1])
                    else:
                        cur.append("\\" + s[i + 1])
                    i += 2
                else:
                    cur.append(d)
                    i += 1
            have = True
        else:
            cur.append(c)
            have = True
            i += 1
    if have:
        words.append("".join(cur))
    return words
