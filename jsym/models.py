"""Exact symbolic stand-ins for C-implemented value types that cannot carry a proxy."""
from .core import SymInt, is_sym


class SymTD:
    """Integer-microsecond model of datetime.timedelta for symbolic operands.

    The arithmetic, ordering and truth-value protocol of timedelta over exact integers:
    construction from the keyword units, +, -, unary -, abs, * and // by an integer, // and % by a
    duration, ordering, ==/!=, truth value (timedelta(0) is falsy), / by a duration or a number, the normalised
    days/seconds/microseconds components, total_seconds.  (Session 2: the truth
    value and subtraction were missing and a seeded change relying on `if remaining:` went unnoticed by
    the kernel; any other operation raises TypeError, which makes the obligation inconclusive, not silent.)"""

    __slots__ = ("us",)

    def __init__(self, days=0, seconds=0, microseconds=0, milliseconds=0, minutes=0, hours=0, weeks=0, _us=None):
        if _us is not None:
            self.us = _us
            return
        self.us = (microseconds + 1000 * milliseconds + 1000000 * seconds + 60000000 * minutes
                   + 3600000000 * hours + 86400000000 * days + 604800000000 * weeks)

    def __add__(self, o):
        if not isinstance(o, SymTD):
            return NotImplemented
        return SymTD(_us=self.us + o.us)

    __radd__ = __add__

    def __sub__(self, o):
        if not isinstance(o, SymTD):
            return NotImplemented
        return SymTD(_us=self.us - o.us)

    def __mul__(self, o):
        if isinstance(o, SymTD):
            return NotImplemented
        return SymTD(_us=self.us * o)

    __rmul__ = __mul__

    def __rsub__(self, o):
        if not isinstance(o, SymTD):
            return NotImplemented
        return SymTD(_us=o.us - self.us)

    def __neg__(self):
        return SymTD(_us=-self.us)

    def __pos__(self):
        return self

    def __abs__(self):
        return SymTD(_us=self.us if self.us >= 0 else -self.us)

    def __bool__(self):
        return bool(self.us != 0)

    def __floordiv__(self, o):
        if isinstance(o, SymTD):
            return self.us // o.us
        return SymTD(_us=self.us // o)

    def __mod__(self, o):
        if not isinstance(o, SymTD):
            return NotImplemented
        return SymTD(_us=self.us % o.us)

    def __ne__(self, o):
        return not isinstance(o, SymTD) or self.us != o.us

    def __truediv__(self, o):
        if isinstance(o, SymTD):
            return self.us / o.us  # a float in CPython; an exact rational here
        return SymTD(_us=round(self.us / o))  # CPython rounds the quotient half-to-even to whole microseconds

    # normalised components, as timedelta exposes them (0 <= seconds < 86400, 0 <= microseconds < 10**6, days may be negative)
    @property
    def days(self):
        return self.us // 86400000000

    @property
    def seconds(self):
        return (self.us % 86400000000) // 1000000

    @property
    def microseconds(self):
        return self.us % 1000000

    def __lt__(self, o):
        return self.us < o.us

    def __le__(self, o):
        return self.us <= o.us

    def __gt__(self, o):
        return self.us > o.us

    def __ge__(self, o):
        return self.us >= o.us

    def __eq__(self, o):
        return isinstance(o, SymTD) and self.us == o.us

    def __hash__(self):
        return hash(self.us)

    def __repr__(self):
        return "SymTD(us=%r)" % (self.us,)

    def total_seconds(self):
        return self.us / 1000000  # exact; CPython's float has 53 bits, enough for every duration used here
