"""jsym: a lean concolic executor on z3.

Real code runs natively; only the values a harness injects are symbolic proxy
objects (SymBool / SymInt / SymReal) that wrap z3 terms.  Every branch on a
symbolic value is decided by z3 (both sides checked under the path condition),
exploration is replay-based depth-first search over the decision tree, and a
harness is reported as holding only when the tree of feasible paths has been
exhausted.

API used by harnesses (identical for the symbolic Explorer and for the
solver-free ConcreteExplorer used to replay counterexamples):

    ex.int(name, lo, hi)      fresh integer in [lo, hi]
    ex.real(name, lo, hi)     fresh real in [lo, hi]
    ex.bool(name)             fresh boolean
    ex.choice(name, n)        fresh integer in [0, n) *realised* (forked) at once
    ex.assume(cond)           restrict the path; infeasible paths are dropped
    ex.check(cond, msg, **ctx)  assertion; a sat(pc & ~cond) is a violation
    ex.reached()              marks the final assertion point (reachability twin)
    ex.value(x)               concrete value of x (realise-and-fork)
"""
import hashlib
import json
import os
import signal
import sys
import time

import z3

__all__ = [
    "Explorer", "ConcreteExplorer", "SymBool", "SymInt", "SymReal", "PathAbort", "Infeasible",
    "PathBudget", "NonDeterminism", "Violation", "is_sym", "sym_and", "sym_or", "sym_not",
    "ite",
]


class PathAbort(BaseException):
    """Control flow of the explorer; never caught by code under test (BaseException)."""


class Infeasible(PathAbort):
    pass


class PathBudget(PathAbort):
    pass


class Cut(PathAbort):
    """Raised by the prefix enumerator when the depth limit is reached."""


class NonDeterminism(Exception):
    pass


class Violation(dict):
    """A failed assertion together with a concrete assignment."""


_CUR = None  # the active explorer (one per process; harnesses run on one thread at a time)


def current():
    return _CUR


def is_sym(x):
    return isinstance(x, (SymBool, SymInt, SymReal))


def _zbool(x):
    if isinstance(x, SymBool):
        return x.e
    if isinstance(x, bool):
        return z3.BoolVal(x)
    if isinstance(x, (SymInt, SymReal)):
        return x.e != 0
    return z3.BoolVal(bool(x))


def sym_and(*xs):
    if not any(is_sym(x) for x in xs):
        return all(xs)
    return SymBool(z3.simplify(z3.And(*[_zbool(x) for x in xs])))


def sym_or(*xs):
    if not any(is_sym(x) for x in xs):
        return any(xs)
    return SymBool(z3.simplify(z3.Or(*[_zbool(x) for x in xs])))


def sym_not(x):
    if not is_sym(x):
        return not x
    return SymBool(z3.simplify(z3.Not(_zbool(x))))


def ite(c, a, b):
    """if-then-else that stays symbolic when the condition is symbolic."""
    if not is_sym(c):
        return a if c else b
    za, zb = _znum(a), _znum(b)
    if za is None or zb is None:
        return a if c else b  # forks
    e = z3.If(_zbool(c), za, zb)
    return SymReal(e) if e.sort() == z3.RealSort() else SymInt(e)


def _znum(x):
    if isinstance(x, (SymInt, SymReal)):
        return x.e
    if isinstance(x, SymBool):
        return z3.If(x.e, z3.IntVal(1), z3.IntVal(0))
    if isinstance(x, bool):
        return z3.IntVal(int(x))
    if isinstance(x, int):
        return z3.IntVal(x)
    if isinstance(x, float):
        return z3.RealVal(repr(x))
    return None


class SymBool:
    __slots__ = ("e",)

    def __init__(self, e):
        self.e = e

    def __bool__(self):
        return _CUR.decide(self.e)

    def __and__(self, o):
        return SymBool(z3.simplify(z3.And(self.e, _zbool(o))))

    __rand__ = __and__

    def __or__(self, o):
        return SymBool(z3.simplify(z3.Or(self.e, _zbool(o))))

    __ror__ = __or__

    def __invert__(self):
        return SymBool(z3.simplify(z3.Not(self.e)))

    def __eq__(self, o):
        return SymBool(z3.simplify(self.e == _zbool(o)))

    def __ne__(self, o):
        return SymBool(z3.simplify(self.e != _zbool(o)))

    def __hash__(self):
        return hash(bool(self))

    def __index__(self):
        return int(bool(self))

    __int__ = __index__

    def __repr__(self):
        return "SymBool(%s)" % self.e

    def __add__(self, o):
        return SymInt(_znum(self)) + o

    __radd__ = __add__


class _SymNum:
    __slots__ = ("e",)
    _real = False

    def __init__(self, e):
        self.e = e

    # -- helpers
    def _wrap(self, e):
        return SymReal(e) if e.sort() == z3.RealSort() else SymInt(e)

    def _co(self, o):
        z = _znum(o)
        return z

    def _bin(self, o, f, swap=False):
        if _CUR._pending_budget:
            _CUR.poll_budget()
        z = self._co(o)
        if z is None:
            return NotImplemented
        a, b = (z, self.e) if swap else (self.e, z)
        if a.sort() != b.sort():
            if a.sort() == z3.IntSort():
                a = z3.ToReal(a)
            if b.sort() == z3.IntSort():
                b = z3.ToReal(b)
        return self._wrap(z3.simplify(f(a, b)))

    def _cmp(self, o, f):
        if _CUR._pending_budget:
            _CUR.poll_budget()
        z = self._co(o)
        if z is None:
            return NotImplemented
        a, b = self.e, z
        if a.sort() != b.sort():
            if a.sort() == z3.IntSort():
                a = z3.ToReal(a)
            if b.sort() == z3.IntSort():
                b = z3.ToReal(b)
        return SymBool(z3.simplify(f(a, b)))

    def __add__(self, o):
        return self._bin(o, lambda a, b: a + b)

    def __radd__(self, o):
        return self._bin(o, lambda a, b: a + b, True)

    def __sub__(self, o):
        return self._bin(o, lambda a, b: a - b)

    def __rsub__(self, o):
        return self._bin(o, lambda a, b: a - b, True)

    def __mul__(self, o):
        return self._bin(o, lambda a, b: a * b)

    def __rmul__(self, o):
        return self._bin(o, lambda a, b: a * b, True)

    def __neg__(self):
        return self._wrap(-self.e)

    def __pos__(self):
        return self

    def __abs__(self):
        return self._wrap(z3.If(self.e >= 0, self.e, -self.e))

    def __truediv__(self, o):
        z = self._co(o)
        if z is None:
            return NotImplemented
        a = z3.ToReal(self.e) if self.e.sort() == z3.IntSort() else self.e
        b = z3.ToReal(z) if z.sort() == z3.IntSort() else z
        return SymReal(a / b)

    def __rtruediv__(self, o):
        z = self._co(o)
        if z is None:
            return NotImplemented
        a = z3.ToReal(self.e) if self.e.sort() == z3.IntSort() else self.e
        b = z3.ToReal(z) if z.sort() == z3.IntSort() else z
        return SymReal(b / a)

    def __lt__(self, o):
        return self._cmp(o, lambda a, b: a < b)

    def __le__(self, o):
        return self._cmp(o, lambda a, b: a <= b)

    def __gt__(self, o):
        return self._cmp(o, lambda a, b: a > b)

    def __ge__(self, o):
        return self._cmp(o, lambda a, b: a >= b)

    def __eq__(self, o):
        r = self._cmp(o, lambda a, b: a == b)
        return False if r is NotImplemented else r

    def __ne__(self, o):
        r = self._cmp(o, lambda a, b: a != b)
        return True if r is NotImplemented else r

    def __bool__(self):
        return _CUR.decide(z3.simplify(self.e != 0))

    def __hash__(self):
        return hash(_CUR.value(self))

    def __repr__(self):
        return "%s(%s)" % (type(self).__name__, self.e)

    def __str__(self):
        return str(_CUR.value(self))

    def __format__(self, spec):
        return format(_CUR.value(self), spec)


class SymInt(_SymNum):
    __slots__ = ()

    def __index__(self):
        return _CUR.value(self)

    __int__ = __index__

    def __float__(self):
        return float(_CUR.value(self))

    def __round__(self, ndigits=None):
        if ndigits is not None and not (isinstance(ndigits, int) and ndigits >= 0):
            raise TypeError("round(SymInt, negative ndigits) is not modelled")
        return self

    def __floor__(self):
        return self

    __ceil__ = __trunc__ = __floor__

    def __floordiv__(self, o):
        z = self._co(o)
        if z is None or z.sort() != z3.IntSort():
            return NotImplemented
        # python floor division; z3 div rounds towards -inf for positive divisors only
        a, b = self.e, z
        q = z3.If(b > 0, a / b, (-a) / (-b))
        return SymInt(q)

    def __mod__(self, o):
        z = self._co(o)
        if z is None or z.sort() != z3.IntSort():
            return NotImplemented
        a, b = self.e, z
        q = z3.If(b > 0, a / b, (-a) / (-b))
        return SymInt(a - q * b)


class SymReal(_SymNum):
    """Exact real (rational) arithmetic standing in for float.  floor/ceil/trunc/int/round are the exact operations
    on the real value (round = half-to-even, as Python's round(float)); they agree with IEEE doubles wherever the
    double is the exact quotient or far from a .5 boundary - the replay on plain Python values settles the rest."""
    __slots__ = ()
    _real = True

    def __float__(self):
        v = _CUR.value(self)
        return float(v)

    def __floor__(self):
        return SymInt(z3.simplify(z3.ToInt(self.e)))

    def __ceil__(self):
        return SymInt(z3.simplify(-z3.ToInt(-self.e)))

    def __trunc__(self):
        return SymInt(z3.simplify(z3.If(self.e >= 0, z3.ToInt(self.e), -z3.ToInt(-self.e))))

    __int__ = __trunc__

    def __round__(self, ndigits=None):
        if ndigits is not None:
            raise TypeError("round(SymReal, ndigits) is not modelled")
        fl = z3.ToInt(self.e)
        frac = self.e - z3.ToReal(fl)
        half = z3.RealVal(1) / 2
        return SymInt(z3.simplify(z3.If(frac < half, fl, z3.If(frac > half, fl + 1, z3.If(fl % 2 == 0, fl, fl + 1)))))

    def __floordiv__(self, o):
        z = self._co(o)
        if z is None:
            return NotImplemented
        b = z3.ToReal(z) if z.sort() == z3.IntSort() else z
        return SymReal(z3.ToReal(z3.ToInt(self.e / b)))


def _model_value(m, e):
    v = m.eval(e, model_completion=True)
    if z3.is_int_value(v):
        return v.as_long()
    if z3.is_rational_value(v):
        from fractions import Fraction

        return Fraction(v.numerator_as_long(), v.denominator_as_long())
    if z3.is_true(v):
        return True
    if z3.is_false(v):
        return False
    if z3.is_algebraic_value(v):
        from fractions import Fraction

        a = v.approx(20)
        return Fraction(a.numerator_as_long(), a.denominator_as_long())
    raise RuntimeError("cannot read model value %r" % (v,))


class Explorer:
    """Replay-based DFS over the decision tree of a harness function."""

    symbolic = True

    def __init__(self, solver_timeout_ms=10000, path_seconds=20, max_paths=None,
                 dump_dir=None, dump_every=0, dump_max=0):
        kind = os.environ.get("JSYM_SOLVER", "simple")
        self.solver = z3.SimpleSolver() if kind == "simple" else z3.Solver()
        self.solver_timeout_ms = solver_timeout_ms
        self.solver.set("timeout", solver_timeout_ms)
        self.path_seconds = path_seconds
        self.max_paths = max_paths
        self.stats = dict(paths=0, completed=0, reached=0, infeasible=0, budget=0, decisions=0,
                          forks=0, queries=0, sat=0, unsat=0, unknown=0, concretisations=0,
                          solver_s=0.0, checks=0, sym_checks=0, errors=0)
        self.violations = []
        self.samples = []
        self.inconclusive = []
        self.trail = []  # [taken, has_alt, ast_hash, payload]
        self.pos = 0
        self.prefix_len = 0
        self._model = None
        self.vars = {}  # name -> z3 const (declaration order kept)
        self.depth_limit = None
        self.cut_prefixes = []
        self.dump_dir = dump_dir
        self.dump_every = dump_every
        self.dump_max = dump_max
        self._dumped = 0
        self.notes = {}
        self._want_model = False
        self._last_model = None
        self._consts = {}
        self._vcount = {}
        self.stop_after_violations = 8
        self.abort_shard = False
        self._busy = 0
        self._pending_budget = False
        self._ticks_pending = 0
        self._aborted = None
        self.levels = 0       # solver push levels == decisions of the current path asserted so far
        self.kept_levels = 0  # levels retained from the previous path (shared prefix)
        self.ops = 0          # solver.add operations outside decisions, in path order
        self.kept_ops = 0
        self.ops_at_level = []

    # ---------------------------------------------------------------- solver
    def _check(self, *extra):
        t = time.perf_counter()
        self.stats["queries"] += 1
        if self.dump_every and self._dumped < self.dump_max and self.stats["queries"] % self.dump_every == 0:
            self._dump(extra)
        if extra:
            self.solver.push()
            self.solver.add(*extra)
            r = self.solver.check()
            if str(r) == "sat" and self._want_model:
                self._last_model = self.solver.model()
            self.solver.pop()
        else:
            r = self.solver.check()
        self.stats["solver_s"] += time.perf_counter() - t
        s = str(r)
        self.stats[s] = self.stats.get(s, 0) + 1
        return s

    def _dump(self, extra):
        try:
            s = z3.Solver()
            s.add(self.solver.assertions())
            for e in extra:
                s.add(e)
            text = "(set-logic ALL)\n" + s.to_smt2()
            os.makedirs(self.dump_dir, exist_ok=True)
            h = hashlib.sha1(text.encode()).hexdigest()[:12]
            with open(os.path.join(self.dump_dir, "q_%s_%d.smt2" % (h, os.getpid())), "w") as f:
                f.write(text)
            self._dumped += 1
        except Exception:
            pass

    def model(self):
        self._enter()
        try:
            return self._model_impl()
        finally:
            self._leave()

    def _model_impl(self):
        if self._model is None:
            r = self._check()
            if r != "sat":
                raise NonDeterminism("path condition of a replayed prefix is %s" % r)
            self._model = self.solver.model()
        return self._model

    def _add(self, c):
        """Assert outside a decision (variable ranges, checked assertions)."""
        self.ops += 1
        if self.ops <= self.kept_ops:
            return  # still asserted on a retained level
        self.solver.add(c)
        self._model = None

    def _level(self, c):
        """Assert the constraint of decision number self.pos (already incremented)."""
        if self.pos <= self.kept_levels:
            return  # retained from the previous path
        self.ops_at_level.append(self.ops)
        self.solver.push()
        self.levels += 1
        self.solver.add(c)

    # ---------------------------------------------------------------- variables
    def _declare(self, name, const, *constraints):
        if self._aborted is not None:
            raise self._aborted()
        if name in self.vars:
            raise ValueError("duplicate symbolic variable %s" % name)
        self.vars[name] = const
        for c in constraints:
            self._add(c)
        return const

    def _const(self, name, mk):
        c = self._consts.get(name)
        if c is None:
            c = self._consts[name] = mk(name)
        return c

    def _range(self, name, c, lo, hi):
        if self._aborted is not None:
            raise self._aborted()
        if name in self.vars:
            raise ValueError("duplicate symbolic variable %s" % name)
        self.vars[name] = c
        for bound, le in ((lo, False), (hi, True)):
            if bound is not None:
                self.ops += 1
                if self.ops > self.kept_ops:
                    self.solver.add(c <= bound if le else c >= bound)
                    self._model = None

    def int(self, name, lo=None, hi=None):
        c = self._const(name, z3.Int)
        self._range(name, c, lo, hi)
        return SymInt(c)

    def real(self, name, lo=None, hi=None):
        c = self._const(name, z3.Real)
        self._range(name, c, lo, hi)
        return SymReal(c)

    def bool(self, name):
        c = self._const(name, z3.Bool)
        self._declare(name, c)
        return SymBool(c)

    def choice(self, name, n):
        """An integer in [0, n) chosen by the solver and forked over at once."""
        if n <= 1:
            self._range(name, self._const(name, z3.Int), 0, 0)
            return 0
        x = self.int(name, 0, n - 1)
        # fast path: the whole realisation is retained from the previous path
        while self.pos < self.kept_levels:
            ent = self.trail[self.pos]
            if ent[3] is None:
                break
            self.pos += 1
            self.stats["decisions"] += 1
            if ent[0]:
                return ent[3]
        return self.value(x)

    def flag(self, name):
        """A boolean chosen by the solver and forked over at once."""
        if self._aborted is not None:
            raise self._aborted()
        c = self._const(name, z3.Bool)
        if name in self.vars:
            raise ValueError("duplicate symbolic variable %s" % name)
        self.vars[name] = c
        return self.decide(c)

    # ---------------------------------------------------------------- decisions
    def decide(self, cond, payload=None):
        self._enter()
        try:
            return self._decide_impl(cond, payload)
        finally:
            self._leave()

    def _decide_impl(self, cond, payload=None):
        """cond must be simplified (all proxy constructors simplify)."""
        if z3.is_true(cond):
            return True
        if z3.is_false(cond):
            return False
        self.stats["decisions"] += 1
        if self.pos < self.kept_levels:  # constraint retained from the previous path
            self.pos += 1
            return self.trail[self.pos - 1][0]
        h = cond.hash()
        if self.pos < len(self.trail):
            ent = self.trail[self.pos]
            if ent[2] is not None and ent[2] != h:
                raise NonDeterminism("decision %d differs on replay: %s" % (self.pos, cond))
            ent[2] = h
            taken = ent[0]
            self.pos += 1
            if self.pos > self.kept_levels:
                self._level(cond if taken else z3.Not(cond))
                self._model = None
            return taken
        if self.depth_limit is not None and len(self.trail) >= self.depth_limit:
            self._abort(Cut)
        m = self.model()
        side = z3.is_true(m.eval(cond, model_completion=True))
        other = z3.Not(cond) if side else cond
        r = self._check(other)
        if r == "unknown":
            self.inconclusive.append("solver unknown on branch: %s" % str(cond)[:200])
        has_alt = r == "sat"
        if has_alt:
            self.stats["forks"] += 1
        self.trail.append([side, has_alt, h, payload])
        self.pos += 1
        self._level(cond if side else z3.Not(cond))
        return side

    def assume(self, cond):
        self._enter()
        try:
            return self._assume_impl(cond)
        finally:
            self._leave()

    def _assume_impl(self, cond):
        if not is_sym(cond):
            if not cond:
                raise Infeasible()
            return
        c = z3.simplify(_zbool(cond))
        if z3.is_true(c):
            return
        if self.pos < self.kept_levels:
            self.pos += 1
            return
        h = c.hash()
        if self.pos < len(self.trail):
            ent = self.trail[self.pos]
            if ent[2] is not None and ent[2] != h:
                raise NonDeterminism("assume %d differs on replay" % self.pos)
            self.pos += 1
            if self.pos > self.kept_levels:
                self._level(c)
                self._model = None
            return
        r = self._check(c)
        if r == "unknown":
            self.inconclusive.append("solver unknown on assume")
        if r != "sat":
            self._abort(Infeasible)
        self.trail.append([True, False, h, None])
        self.pos += 1
        self._level(c)
        self._model = None

    def value(self, x):
        """Realise-and-fork: a concrete value for x, every other value is explored too."""
        if isinstance(x, SymBool):
            return bool(x)
        if not isinstance(x, (SymInt, SymReal)):
            return x
        e = z3.simplify(x.e)
        if z3.is_int_value(e):
            return e.as_long()
        if z3.is_rational_value(e):
            return float(e.numerator_as_long()) / e.denominator_as_long()
        self.stats["concretisations"] += 1
        while True:
            if self.pos < len(self.trail) and self.trail[self.pos][3] is not None:
                v = self.trail[self.pos][3]  # replay: the value chosen when this fork was made
                if isinstance(v, str):
                    from fractions import Fraction

                    v = Fraction(v)
            else:
                v = _model_value(self.model(), e)
            zv = z3.IntVal(v) if isinstance(v, int) else z3.RealVal(str(v))
            if self.decide(z3.simplify(e == zv), payload=v if isinstance(v, int) else str(v)):
                return v if isinstance(v, int) else float(v)

    # ---------------------------------------------------------------- assertions
    def check(self, cond, msg, **ctx):
        self._enter()
        try:
            return self._check_impl(cond, msg, **ctx)
        finally:
            self._leave()

    def _check_impl(self, cond, msg, **ctx):
        if ctx.pop("fatal", False) and not is_sym(cond) and not cond:
            self.abort_shard = True  # an expensive violation (e.g. non-termination): do not repeat it path after path
        self.stats["checks"] += 1
        if not is_sym(cond):
            if not cond:
                self._violation(msg, ctx, self.model())
            return
        self.stats["sym_checks"] += 1
        c = z3.simplify(_zbool(cond))
        if z3.is_true(c):
            return
        self._want_model = True
        r = self._check(z3.Not(c))
        self._want_model = False
        if r == "sat":
            self._violation(msg, ctx, self._last_model)
            # continue the path under the assertion (other failures may follow)
            rr = self._check(c)
            if rr != "sat":
                raise Infeasible()
        elif r == "unknown":
            self.inconclusive.append("solver unknown on assertion: %s" % msg)
        self._add(c)

    def assignment(self, m=None):
        m = m or self.model()
        out = {}
        for name, c in self.vars.items():
            v = _model_value(m, c)
            out[name] = v if isinstance(v, (int, bool)) else str(v)
        return out

    def _violation(self, msg, ctx, m):
        v = Violation(message=msg, assignment=self.assignment(m),
                      context={k: _jsonable(val) for k, val in ctx.items()},
                      decisions=[bool(t[0]) for t in self.trail[: self.pos]])
        c = self._vcount[msg] = self._vcount.get(msg, 0) + 1
        if c <= 3:
            self.violations.append(v)
        self.stats["violations"] = self.stats.get("violations", 0) + 1

    def reached(self):
        self._reached = True

    def note(self, key, n=1):
        self.notes[key] = self.notes.get(key, 0) + n

    # ---------------------------------------------------------------- driver
    def _alarm(self, *_):
        # Raising from a signal handler can land inside z3's ctypes wrappers or AstRef.__del__, where the exception is
        # swallowed ("Exception ignored") and reference counts get corrupted.  So: set a flag that the proxies and the
        # explorer API poll at safe points; only if nothing polls it for 3 more ticks (a loop over concrete values only),
        # raise from here.
        self._pending_budget = True
        self._ticks_pending += 1
        if self._ticks_pending > 3 and not self._busy:
            f = sys._getframe(1)
            if "z3" not in f.f_code.co_filename:
                raise PathBudget()

    def poll_budget(self):
        if self._aborted is not None:
            raise self._aborted()
        if self._pending_budget and not self._busy:
            self._pending_budget = False
            self._abort(PathBudget)

    def _abort(self, exc_class):
        """Abort the current path.  From now on every explorer call on this path raises the same abort again, so that
        code which runs while the stack unwinds (finally: clauses calling back into a harness hook) cannot turn the
        abort into an ordinary exception that the code under test would swallow."""
        self._aborted = exc_class
        raise exc_class()

    def _enter(self):
        if self._aborted is not None:
            raise self._aborted()
        if self._pending_budget and not self._busy:
            self._pending_budget = False
            self._abort(PathBudget)
        self._busy += 1

    def _leave(self):
        self._busy -= 1
        if not self._busy and self._pending_budget and self._aborted is None:
            self._pending_budget = False
            self._abort(PathBudget)

    def run_path(self, fn):
        global _CUR
        _CUR = self
        self.vars = {}
        self.pos = 0
        self.ops = 0
        self._model = None
        self._reached = False
        self._busy = 0
        self._pending_budget = False
        self._ticks_pending = 0
        self._aborted = None
        self.stats["paths"] += 1
        use_alarm = self.path_seconds and hasattr(signal, "SIGPROF")
        if use_alarm:  # CPU-time budget of this process (robust against a loaded machine)
            old = signal.signal(signal.SIGPROF, self._alarm)
            signal.setitimer(signal.ITIMER_PROF, self.path_seconds, 0.5)  # re-fires: a raise inside a C callback can be swallowed
        status = "completed"
        try:
            try:
                fn(self)
            finally:
                if use_alarm:
                    signal.setitimer(signal.ITIMER_PROF, 0)
                    signal.signal(signal.SIGPROF, old)
            if self._aborted is not None:
                raise self._aborted()  # the abort was swallowed somewhere below: the path still counts as aborted
            self.stats["completed"] += 1
            if self._reached:
                self.stats["reached"] += 1
        except Infeasible:
            self.stats["infeasible"] += 1
            status = "infeasible"
        except Cut:
            self.cut_prefixes.append([[bool(t[0]), t[3]] for t in self.trail])
            status = "cut"
        except PathBudget:
            self.stats["budget"] += 1
            self.inconclusive.append("path budget exceeded; decisions=%s" % [int(t[0]) for t in self.trail[: self.pos]][:60])
            status = "budget"
        if status == "completed" and len(self.samples) < 3:
            try:
                self.samples.append(self.assignment())
            except Exception:
                pass
        return status

    def _backtrack(self, floor):
        while len(self.trail) > floor and not self.trail[-1][1]:
            self.trail.pop()
        if len(self.trail) <= floor:
            return False
        ent = self.trail[-1]
        ent[0] = not ent[0]
        ent[1] = False
        # keep the solver levels of the shared prefix (everything before the flipped decision)
        keep = min(len(self.trail) - 1, self.levels)
        if self.levels > keep:
            self.solver.pop(self.levels - keep)
            self.levels = keep
        self.kept_levels = keep
        self.kept_ops = self.ops_at_level[keep] if keep < len(self.ops_at_level) else self.ops
        del self.ops_at_level[keep:]
        return True

    def explore(self, fn, prefix=None):
        """Exhaust the subtree under `prefix` (list of bools)."""
        self.trail = [[bool(b[0]), False, None, b[1]] if isinstance(b, (list, tuple)) else [bool(b), False, None, None]
                      for b in (prefix or [])]
        self.solver.reset()
        self.solver.set("timeout", self.solver_timeout_ms)
        self.levels = self.kept_levels = self.kept_ops = 0
        self.ops_at_level = []
        floor = len(self.trail)
        while True:
            self.run_path(fn)
            if self.stats.get("violations", 0) >= self.stop_after_violations or self.abort_shard:
                # a violation is established; do not spend the budget on the rest of this shard
                if self._backtrack(floor):
                    self.inconclusive.append("shard abandoned after %d violations" % self.stats["violations"])
                    return False
                return True
            if self.max_paths and self.stats["paths"] >= self.max_paths:
                if self._backtrack(floor):
                    self.inconclusive.append("max_paths %d reached" % self.max_paths)
                return False
            if not self._backtrack(floor):
                return True

    def enumerate_prefixes(self, fn, depth):
        """Explore with a depth limit; returns the list of cut prefixes (work items)."""
        self.depth_limit = depth
        self.cut_prefixes = []
        self.explore(fn)
        self.depth_limit = None
        return self.cut_prefixes


def _jsonable(v):
    try:
        json.dumps(v)
        return v
    except Exception:
        return repr(v)


class ConcreteExplorer:
    """Solver-free replay of an assignment: the same harness code, plain Python values."""

    symbolic = False

    def __init__(self, assignment):
        self.a = dict(assignment)
        self.violations = []
        self.stats = dict(checks=0)
        self._reached = False
        self.missing = []
        self.notes = {}

    def _get(self, name, default):
        if name not in self.a:
            self.missing.append(name)
            return default
        return self.a[name]

    def int(self, name, lo=None, hi=None):
        v = int(self._get(name, lo if lo is not None else 0))
        if (lo is not None and v < lo) or (hi is not None and v > hi):
            raise Infeasible()
        return v

    def real(self, name, lo=None, hi=None):
        from fractions import Fraction

        v = self._get(name, lo if lo is not None else 0)
        v = Fraction(v) if isinstance(v, str) else Fraction(v)
        return v

    def bool(self, name):
        return bool(self._get(name, False))

    def choice(self, name, n):
        return int(self._get(name, 0)) if n > 1 else 0

    def flag(self, name):
        return bool(self._get(name, False))

    def decide(self, cond):
        raise RuntimeError("symbolic decision during concrete replay")

    def assume(self, cond):
        if not cond:
            raise Infeasible()

    def value(self, x):
        return x

    def check(self, cond, msg, **ctx):
        ctx.pop("fatal", None)
        self.stats["checks"] += 1
        if not cond:
            self.violations.append(Violation(message=msg, assignment=dict(self.a),
                                             context={k: _jsonable(v) for k, v in ctx.items()}))

    def reached(self):
        self._reached = True

    def note(self, key, n=1):
        self.notes[key] = self.notes.get(key, 0) + n

    def run(self, fn, path_seconds=30):
        """path_seconds: CPU-time budget, so that a replayed non-termination ends (no z3 objects here: raising from the
        handler is safe)."""
        global _CUR
        old = _CUR
        _CUR = self

        def on_alarm(*_):
            raise PathBudget()

        prev = signal.signal(signal.SIGPROF, on_alarm)
        signal.setitimer(signal.ITIMER_PROF, path_seconds, 1.0)
        try:
            try:
                fn(self)
            finally:
                signal.setitimer(signal.ITIMER_PROF, 0)
                signal.signal(signal.SIGPROF, prev)
            return "completed"
        except Infeasible:
            return "infeasible"
        except PathBudget:
            return "budget"
        finally:
            _CUR = old
