from .core import *  # noqa
from .core import current
from .models import SymTD
