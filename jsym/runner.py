"""Parallel driver for jsym obligations: prefix sharding over worker processes,
function-coverage profile, cvc5 cross-check of sampled queries, concrete replay."""
import importlib
import json
import multiprocessing as mp
import os
import shutil
import subprocess
import sys
import tempfile
import time
import traceback

from .core import ConcreteExplorer, Explorer

REPO = os.environ.get("VERIF_REPO", "/repo")
NPROC = int(os.environ.get("VERIF_NPROC", str(min(16, os.cpu_count() or 1))))


def _load(spec):
    """spec = (module, factory, kwargs) -> harness callable fn(ex)."""
    mod = importlib.import_module(spec[0])
    return getattr(mod, spec[1])(**(spec[2] or {}))


class _Profile:
    """Collects module.qualname of every /repo function executed (the 'functions encoded')."""

    def __init__(self):
        self.seen = set()
        self.root = os.path.join(REPO, "jade") + os.sep

    def __call__(self, frame, event, arg):
        if event == "call":
            co = frame.f_code
            if co.co_filename.startswith(self.root):
                self.seen.add((co.co_filename[len(REPO) + 1:-3].replace(os.sep, "."), co.co_qualname))

    def names(self):
        return sorted("%s.%s" % x for x in self.seen)


def _merge_stats(dst, src):
    for k, v in src.items():
        if isinstance(v, (int, float)):
            dst[k] = dst.get(k, 0) + v


def _worker(args):
    spec, prefix, opts, expand_to = args
    try:
        import faulthandler
        import signal

        faulthandler.register(signal.SIGUSR1, all_threads=True)  # kill -USR1 <worker> shows where it is
        fn = _load(spec)
        ex = Explorer(solver_timeout_ms=opts.get("solver_timeout_ms", 10000),
                      path_seconds=opts.get("path_seconds", 20),
                      dump_dir=opts.get("dump_dir"), dump_every=opts.get("dump_every", 0),
                      dump_max=opts.get("dump_max", 0))
        t = time.time()
        prof = _Profile()
        count = [0]

        def fn_prof(e):
            count[0] += 1
            if count[0] > 2:
                return fn(e)
            import threading

            sys.setprofile(prof)
            threading.setprofile(prof)
            try:
                return fn(e)
            finally:
                sys.setprofile(None)
                threading.setprofile(None)

        if expand_to is not None:
            ex.depth_limit = expand_to
        done = ex.explore(fn_prof, prefix)
        return dict(stats=ex.stats, violations=[dict(v) for v in ex.violations],
                    inconclusive=ex.inconclusive[:20], samples=ex.samples, notes=ex.notes,
                    exhausted=done, wall=time.time() - t, cuts=ex.cut_prefixes,
                    functions=prof.names() if prof else [])
    except BaseException as e:  # harness bug or non-determinism: make it visible, never a pass
        return dict(stats={}, violations=[], samples=[], notes={}, exhausted=False, wall=0.0, cuts=[], functions=[],
                    inconclusive=["worker error: %s: %s\n%s" % (type(e).__name__, e, traceback.format_exc()[-1500:])])
    finally:
        try:
            from harness.common import cleanup_scratch

            cleanup_scratch()
        except Exception:
            pass


def run_obligation(name, spec, bounds, opts=None, shard_depth=None, log=None):
    """Explore one obligation to exhaustion.  Returns a result dict.

    Phase 1: the root is expanded to a small decision depth; phase 2: the cut prefixes are expanded
    further in parallel until there are enough shards; phase 3: every shard is exhausted by a worker."""
    opts = dict(opts or {})
    t0 = time.time()
    res = dict(name=name, spec=[spec[0], spec[1], spec[2]], bounds=bounds, stats={}, violations=[],
               inconclusive=[], samples=[], notes={}, exhausted=False, functions=set())
    ctx = mp.get_context("fork")
    pool = ctx.Pool(NPROC) if NPROC > 1 else None

    def run(tasks):
        if pool is None:
            return [_worker(t) for t in tasks]
        return pool.imap_unordered(_worker, tasks, chunksize=1)

    def absorb(o):
        _merge_stats(res["stats"], o["stats"])
        for v in o["violations"]:
            c = res.setdefault("_vcount", {})
            c[v["message"]] = c.get(v["message"], 0) + 1
            if c[v["message"]] <= 3:
                res["violations"].append(v)
        res["inconclusive"] += o["inconclusive"]
        if len(res["samples"]) < 4:
            res["samples"] += o["samples"][:1]
        for k, v in o["notes"].items():
            res["notes"][k] = res["notes"].get(k, 0) + v
        res["functions"].update(o.get("functions") or [])
        return o

    exhausted = True
    try:
        depth = shard_depth if shard_depth is not None else 5
        step = 4
        items = [[]]
        first = True
        while True:
            outs = [absorb(o) for o in run([(spec, p, opts, depth) for p in items])]
            first = False
            items = [c for o in outs for c in o["cuts"]]
            exhausted = exhausted and all(o["exhausted"] or o["cuts"] for o in outs)
            if not items or len(items) >= 8 * NPROC or depth >= 60:
                break
            depth += step
        res["shard_depth"] = depth
        res["shards"] = len(items)
        for o in run([(spec, p, opts, None) for p in items]):
            absorb(o)
            exhausted = exhausted and o["exhausted"]
            if res["violations"] and time.time() - t0 > opts.get("stop_after_violation_s", 90):
                # a violation is established; do not spend the budget exhausting the rest of the tree
                res["inconclusive"].append("exploration stopped early after a violation was found")
                if pool is not None:
                    pool.terminate()
                break
    finally:
        if pool is not None:
            pool.close()
            pool.join()
    res["functions"] = sorted(res["functions"])
    res["exhausted"] = exhausted and not res["inconclusive"]
    res["violation_counts"] = res.pop("_vcount", {})
    res["inconclusive"] = res["inconclusive"][:10]
    res["wall_s"] = round(time.time() - t0, 2)
    return res


def _replay(args):
    spec, assignment = args
    try:
        fn = _load(spec)
        cx = ConcreteExplorer(assignment)
        status = cx.run(fn)
        return status, [dict(v) for v in cx.violations]
    finally:
        try:
            from harness.common import cleanup_scratch

            cleanup_scratch()
        except Exception:
            pass


def replay(spec, assignment, isolate=True):
    """Solver-free replay of a counterexample.  Returns the list of violations it reproduces.
    Runs in a forked child: harness factories patch classes of /repo and must not leak into later obligations."""
    if not isolate:
        return _replay((spec, assignment))
    pool = mp.get_context("fork").Pool(1)
    try:
        return pool.apply(_replay, ((spec, assignment),))
    finally:
        pool.close()
        pool.join()


def cvc5_diff(dump_dir, timeout_s=20):
    """Re-decide the dumped queries with the cvc5 binary and z3 binary; returns counts."""
    out = dict(queries=0, agree=0, disagree=0, cvc5_unknown=0)
    if not dump_dir or not os.path.isdir(dump_dir):
        return out
    cvc5 = shutil.which("cvc5")
    for f in sorted(os.listdir(dump_dir))[:200]:
        p = os.path.join(dump_dir, f)
        text = open(p).read()
        z = subprocess.run(["z3", "-T:%d" % timeout_s, p], capture_output=True, text=True).stdout.strip().split("\n")[0]
        if cvc5 is None:
            continue
        try:
            c = subprocess.run([cvc5, "--tlimit=%d" % (timeout_s * 1000), p], capture_output=True, text=True,
                               timeout=timeout_s + 5).stdout.strip().split("\n")[0]
        except subprocess.TimeoutExpired:
            c = "unknown"
        out["queries"] += 1
        if c not in ("sat", "unsat") or z not in ("sat", "unsat"):
            out["cvc5_unknown"] += 1
        elif c == z:
            out["agree"] += 1
        else:
            out["disagree"] += 1
            out.setdefault("disagreements", []).append(f)
    shutil.rmtree(dump_dir, ignore_errors=True)
    return out
