"""Engine self-test run by every check: the explorer must enumerate exactly the
feasible leaves of a toy program (compared with brute force), find a planted
assertion failure with a model that replays, and prove a true assertion."""
import itertools

from .core import ConcreteExplorer, Explorer


def _toy(leaves):
    def h(ex):
        a = ex.int("a", 0, 3)
        b = ex.int("b", 0, 3)
        x = ex.choice("c", 3)
        n = 0
        if a < b:
            n += 1
        ex.check(a + b <= 6, "sum bound")
        c = ex.int("cc", 0, 2)
        if a + c > 4:
            n += 2
        v = int(b)
        ex.check(a * 2 != 5 - c, "planted")  # fails for a=2,c=1 and a=1? 2a+c=5: (2,1) only
        leaves.append((x, n, v))
        ex.reached()
    return h


def run():
    leaves = []
    ex = Explorer(path_seconds=0)
    ex.stop_after_violations = 10 ** 9
    done = ex.explore(_toy(leaves))
    exp = set()
    for x, a, b, c in itertools.product(range(3), range(4), range(4), range(3)):
        exp.add((x, (1 if a < b else 0) + (2 if a + c > 4 else 0), b))
    planted = [v for v in ex.violations if v["message"] == "planted"]
    other = [v for v in ex.violations if v["message"] != "planted"]
    ok = done and set(leaves) == exp and len(leaves) == len(exp) and planted and not other
    rep = False
    if planted:
        cx = ConcreteExplorer(planted[0]["assignment"])
        cx.run(_toy([]))
        rep = any(v["message"] == "planted" for v in cx.violations)
    return dict(ok=bool(ok and rep), leaves=len(leaves), expected=len(exp), planted_found=len(planted) > 0,
                planted_replays=rep, spurious=len(other), paths=ex.stats["paths"], queries=ex.stats["queries"])
