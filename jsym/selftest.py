"""Engine self-test run by every check: the explorer must enumerate exactly the
feasible leaves of a toy program (compared with brute force), find a planted
assertion failure with a model that replays, and prove a true assertion."""
import itertools

from .core import ConcreteExplorer, Explorer


def _toy(leaves):
    def h(ex):
        a = ex.int("a", 0, 3)
        b = ex.int("b", 0, 3)
        x = ex.choice("c", 3)
        n = 0
        if a < b:
            n += 1
        ex.check(a + b <= 6, "sum bound")
        c = ex.int("cc", 0, 2)
        if a + c > 4:
            n += 2
        v = int(b)
        ex.check(a * 2 != 5 - c, "planted")  # fails for a=2,c=1 and a=1? 2a+c=5: (2,1) only
        leaves.append((x, n, v))
        ex.reached()
    return h


def _models_ok():
    """The stand-ins for C-implemented numbers agree with CPython on every value of a small range:
    round/floor/ceil/trunc of n/8 (SymReal), and truth value, subtraction, negation, abs of SymTD vs timedelta."""
    import math
    from datetime import timedelta

    from .models import SymTD

    bad = []

    def h(ex):
        n = ex.int("n", -20, 20)
        x = n / 8
        vals = (round(x), math.floor(x), math.ceil(x), math.trunc(x))
        td = SymTD(seconds=n)
        truth = bool(td)
        diff = (SymTD(minutes=1) - td).us
        ab = abs(td).us
        comp = (td * 50000 - SymTD(microseconds=7))
        comps = (comp.days, comp.seconds, comp.microseconds)
        n0 = int(n)
        ref = timedelta(seconds=n0)
        rc = ref * 50000 - timedelta(microseconds=7)
        if tuple(int(v) for v in comps) != (rc.days, rc.seconds, rc.microseconds):
            bad.append(("components", n0))
        want = (round(n0 / 8), math.floor(n0 / 8), math.ceil(n0 / 8), math.trunc(n0 / 8))
        if tuple(int(v) for v in vals) != want or truth != bool(ref) or int(diff) != (timedelta(minutes=1) - ref) // timedelta(microseconds=1) \
                or int(ab) != abs(ref) // timedelta(microseconds=1):
            bad.append(n0)

    ex = Explorer(path_seconds=0)
    done = ex.explore(h)
    return bool(done) and not bad


def run():
    leaves = []
    ex = Explorer(path_seconds=0)
    ex.stop_after_violations = 10 ** 9
    done = ex.explore(_toy(leaves))
    exp = set()
    for x, a, b, c in itertools.product(range(3), range(4), range(4), range(3)):
        exp.add((x, (1 if a < b else 0) + (2 if a + c > 4 else 0), b))
    planted = [v for v in ex.violations if v["message"] == "planted"]
    other = [v for v in ex.violations if v["message"] != "planted"]
    ok = done and set(leaves) == exp and len(leaves) == len(exp) and planted and not other
    rep = False
    if planted:
        cx = ConcreteExplorer(planted[0]["assignment"])
        cx.run(_toy([]))
        rep = any(v["message"] == "planted" for v in cx.violations)
    models = _models_ok()
    return dict(ok=bool(ok and rep and models), number_models_agree_with_cpython=models, leaves=len(leaves), expected=len(exp), planted_found=len(planted) > 0,
                planted_replays=rep, spurious=len(other), paths=ex.stats["paths"], queries=ex.stats["queries"])
