#!/bin/bash
# tools/regress_seeded.sh [pattern]  : re-runs the quick check of its property against every seeded change matching the pattern
# (default: all) in scratch worktrees; prints one line per change; a change that is no longer caught is reported as MISSED.
cd /verif
PAT=${1:-.}
for d in $(ls -d seeded/C*/ | grep -E "$PAT"); do
  d=${d%/}
  P=$(python3 -c "import json,sys; print(json.load(open('$d/meta.json'))['property'][:3])")
  OUT=$(CHECK_TIMEOUT=${CHECK_TIMEOUT:-1500} tools/try_mutant.sh $d/patch.diff $P quick --stop-at-first 2>&1 | tail -1)
  if [ "$OUT" = "exit=1" ]; then echo "$d $P caught"; else echo "$d $P MISSED ($OUT)"; fi
done
