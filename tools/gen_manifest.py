"""Generates MANIFEST.json from the obligations registry + per-property texts."""
import json, os, sys
HERE = os.path.dirname(os.path.dirname(os.path.abspath(__file__)))
sys.path.insert(0, HERE)
from manifest_texts import CLAIMS, NOT_APPLICABLE, ENGINES

checks = []
for pid in sorted(CLAIMS):
    c = CLAIMS[pid]
    checks.append(dict(
        property_id=pid,
        quick_cmd="./check %s --tier quick" % pid,
        thorough_cmd="./check %s --tier thorough" % pid,
        evidence_file="evidence/%s.json" % pid,
        replay_cmd_template="./check %s --replay {path}" % pid,
        engine=c.get("engine", "jsym"),
        level_claimed=dict(category="other", text=c["text"], design_ref=c.get("design_ref", "DESIGN.md section 6 " + pid)),
        level_note=c["note"],
        technique=c["technique"],
    ))
m = dict(
    version=1,
    setup_cmd="./setup.sh",
    hooks=dict(guard="NREL_JADE_VERIF", enable="no source hooks: checks import /repo's working tree as it is and stub only library boundaries (subprocess, time, socket, filelock) inside the checker process",
               baseline_off_cmd="cd /repo && /venv/bin/python -m pytest -ra -q -p no:cacheprovider --timeout=900 --continue-on-collection-errors",
               source_commits=[], add_only=True),
    engines=ENGINES,
    checks=checks,
    notes="Every check is bounded solver-based symbolic execution of the real code (see DESIGN.md). exit 0 = all obligations exhausted and proved within bounds; exit 1 = replayed counterexample; exit 2 = inconclusive (never success). fix: commits in /repo are listed in known_findings.json as 'fixed'.",
    not_applicable=[dict(property_id=p, reason=r) for p, r in sorted(NOT_APPLICABLE.items())],
)
json.dump(m, open(os.path.join(HERE, "MANIFEST.json"), "w"), indent=1)
try:
    import jsonschema
except ImportError:
    jsonschema = None
if jsonschema: jsonschema.validate(m, json.load(open("/root/.vp/MANIFEST.schema.json")))
print("MANIFEST ok: %d checks, %d not applicable" % (len(checks), len(m["not_applicable"])))
