#!/bin/bash
# tools/run_all.sh quick|thorough [props...] : runs the registered checks one after the other (each uses all cores), writes evidence.
TIER=${1:-quick}; shift
PROPS=${@:-C01 C02 C03 C04 C05 C06 C07 C08 C09 C10 C11 C12 C13 C14 C15 C16 C17 C18 C19 C20}
cd /verif
for p in $PROPS; do
  S=$(date +%s); ./check $p --tier $TIER > /tmp/runall-$p-$TIER.log 2>&1; RC=$?; E=$(date +%s)
  echo "$p tier=$TIER exit=$RC wall=$((E-S))s $(grep -cE '^VIOLATION|^KNOWN' /tmp/runall-$p-$TIER.log) alarms; $(tail -1 /tmp/runall-$p-$TIER.log | cut -c1-120)"
done
