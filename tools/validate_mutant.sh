#!/bin/bash
# tools/validate_mutant.sh <dir with patch.diff demo.py> : confirms (1) demo passes on the unchanged tree, (2) fails with the patch,
# (3) the pinned suite still passes with the patch. Uses a scratch worktree of /repo; prints a summary line.
D=$(readlink -f "$1")
WT=$(mktemp -d /tmp/val.XXXXXX)
git -C /repo worktree add --detach "$WT" HEAD >/dev/null 2>&1 || exit 9
trap 'git -C /repo worktree remove --force "$WT" >/dev/null 2>&1; rm -rf "$WT"' EXIT
cd "$WT"
timeout 300 /venv/bin/python "$D/demo.py" "$WT" >/dev/null 2>&1; CLEAN=$?
git apply "$D/patch.diff" || { echo "APPLY-FAILED"; exit 9; }
timeout 300 /venv/bin/python "$D/demo.py" "$WT" >/dev/null 2>&1; PATCHED=$?
OUT=$(mktemp /dev/shm/junit.XXXXXX.xml)
env -u NREL_JADE_VERIF /venv/bin/python -m pytest -ra -q -p no:cacheprovider --timeout=900 --continue-on-collection-errors --junitxml=$OUT >/dev/null 2>&1
MISSING=$(/venv/bin/python - "$OUT" <<'PY'
import json, sys, xml.etree.ElementTree as ET
base = json.load(open('/root/.vp/BASELINE.json'))
passed = set()
for tc in ET.parse(sys.argv[1]).getroot().iter('testcase'):
    if not any(c.tag in ('failure', 'error', 'skipped') for c in tc):
        passed.add(tc.get('classname') + '::' + tc.get('name'))
print(len([t for t in base['stable_pass'] if t not in passed]))
PY
)
rm -f $OUT
echo "demo_clean_exit=$CLEAN demo_patched_exit=$PATCHED baseline_missing=$MISSING"
