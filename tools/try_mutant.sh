#!/bin/bash
# tools/try_mutant.sh <patch.diff> <prop> [tier] [extra driver args]
# Applies the patch in a scratch worktree of /repo (never in /repo itself), runs the check against it, removes the worktree.
PATCH=$(readlink -f "$1"); PROP=$2; TIER=${3:-quick}; shift 3
WT=$(mktemp -d /tmp/mutrun.XXXXXX)
git -C /repo worktree add --detach "$WT" HEAD >/dev/null 2>&1 || { echo "worktree failed"; exit 9; }
trap 'git -C /repo worktree remove --force "$WT" >/dev/null 2>&1; rm -rf "$WT"' EXIT
git -C "$WT" apply "$PATCH" || { echo "patch does not apply"; exit 9; }
cd /verif && VERIF_REPO="$WT" timeout -k 5 ${CHECK_TIMEOUT:-1500} ./check $PROP --tier $TIER --no-evidence "$@" > "$WT.log" 2>&1
RC=$?
grep -E "VIOLATION|KNOWN|INCONCLUSIVE|^OK|violations=[1-9]|^    C[0-9]" "$WT.log" | cut -c1-${MAXCOLS:-300} | head -${MAXLINES:-12}
rm -f "$WT.log"
echo "exit=$RC"
