#!/bin/bash
# Runs the pinned suite (guard off) and compares against /root/.vp/BASELINE.json stable_pass.
OUT=$(mktemp /dev/shm/junit.XXXXXX.xml)
cd /repo && env -u NREL_JADE_VERIF /venv/bin/python -m pytest -ra -q -p no:cacheprovider --timeout=900 --continue-on-collection-errors --junitxml=$OUT >/dev/null 2>&1
/venv/bin/python - "$OUT" <<'PY'
import json, sys, xml.etree.ElementTree as ET
base = json.load(open('/root/.vp/BASELINE.json'))
passed = set()
for tc in ET.parse(sys.argv[1]).getroot().iter('testcase'):
    if not any(c.tag in ('failure', 'error', 'skipped') for c in tc):
        passed.add(tc.get('classname') + '::' + tc.get('name'))
missing = [t for t in base['stable_pass'] if t not in passed]
print('stable_pass=%d passed_now=%d missing=%d' % (len(base['stable_pass']), len(passed), len(missing)))
for m in missing: print('  MISSING', m)
sys.exit(1 if missing else 0)
PY
RC=$?; rm -f $OUT; exit $RC
