"""Per-property claim texts for MANIFEST.json (kept next to the obligations registry)."""

ENGINES = [
    dict(name="crosshair", path="harness/x_split.py", serves_properties=["C19"],
         kind_free_text="CrossHair 0.0.110 (`crosshair check --report_all`) on contracts in harness/xsplit/contracts.py: symbolic Unicode strings"),
    dict(name="z3-direct", path="harness/q_slurm.py", serves_properties=["C18"],
         kind_free_text="direct z3 sequence/regex queries over unbounded strings generated from the live objects of /repo"),
    dict(name="jsym", path="jsym/", serves_properties=["C01", "C02", "C03", "C04", "C05", "C06", "C07", "C08", "C09", "C10", "C11", "C12", "C13", "C14", "C15", "C16", "C17", "C18", "C19", "C20"],
         kind_free_text="own concolic executor on z3: proxy objects for ints/reals/bools, every branch decided by the solver, replay-based DFS to exhaustion, prefix-sharded over 16 processes; real JADE code runs natively"),
]

_KB = ("One real HpcSubmitter.run() round (real _submit_batches/_make_batch/_BatchJobs/JobQueue/AsyncHpcSubmitter/"
       "HpcManager.submit/Cluster._update_job_status) from every invariant-satisfying cluster state of N<=3 jobs "
       "(all digraphs of remaining blockers, job states, group assignment, up to 2 earlier active batches) with "
       "per_node_batch_size, max_nodes, walltime seconds, processes per node and estimated minutes as unbounded-in-range "
       "z3 integers; ")

CLAIMS = {
    "C01": dict(
        text=_KB + "asserts no job in two batches, no resubmission of submitted jobs, fresh batch ids, persisted set == handed-out set. "
        "Bounded exhaustive symbolic execution: an inductive step over rounds, not a whole-history proof.",
        note="Stubs: sbatch/squeue at SlurmManager.submit / HpcManager.check_statuses, dump_data and _create_run_script recorders, integer-microsecond timedelta model, Cluster file serialization off. Pre-state invariant: only unsubmitted jobs have remaining blockers and none of them is done. Bounds N<=3, G<=2, <=2 earlier batches.",
        technique="bounded symbolic execution of the real code with z3 (jsym), exhaustive path exploration"),
    "C02": dict(
        text=_KB + "asserts that a job is batched only together with all of its remaining blockers, that the serialized blocked_by equals the remaining set, and that remaining blockers never shrink without a result.",
        note="As C01. Node-level ordering (JobQueue) and result collection are separate obligations.",
        technique="bounded symbolic execution of the real code with z3 (jsym), exhaustive path exploration"),
    "C05": dict(
        text=_KB + "asserts the step clause: after a fault-free round a job with no remaining blockers is left unsubmitted only if max_nodes batches are active; the round terminates, does not raise and removes its marker.",
        note="As C01.",
        technique="bounded symbolic execution of the real code with z3 (jsym), exhaustive path exploration"),
    "C06": dict(
        text=_KB + "asserts at every sbatch that (still-active earlier batches + batches submitted so far in the round) < max_nodes, with max_nodes symbolic.",
        note="As C01.",
        technique="bounded symbolic execution of the real code with z3 (jsym), exhaustive path exploration"),
    "C07": dict(
        text=_KB + "asserts per batch: 1 <= size <= per_node_batch_size or sum(estimates)*60 <= walltime_s*processes (symbolic arithmetic), one group per batch, submitted through that group's HPC interface/script, blocked jobs only with try_add_blocked_jobs and blockers in the batch.",
        note="As C01.",
        technique="bounded symbolic execution of the real code with z3 (jsym), exhaustive path exploration"),
}

_HS = ("H-submit: whole submissions of the real CLI (jade submit-jobs -> stub sbatch -> real jade-internal run-jobs on "
       "virtual nodes -> model job processes -> real jade try-submit-jobs) in a scratch world with real files; DAG shape, "
       "batch size, max_nodes, flags, exit codes and the order of batch starts / job exits / node polls are solver "
       "variables and every feasible schedule of the bounded configuration is explored to quiescence (coarse granularity: "
       "a node polls after an exit, submitter rounds are atomic); ")
_HN = ("World model stubs: subprocess (sbatch/squeue/scancel model, jade commands run in-process, model job processes), "
       "time, socket.gethostname, filelock.SoftFileLock (marker lock on the same files), uuid, logging configuration. "
       "Bounds: N<=3 jobs (4 in thorough for a few shapes), <=2 groups, exit codes {0,1}; coarse scheduling granularity.")
for _p, _t in {
    "C01": "and in H-submit: every job launched at most once, in at most one sbatch'ed batch config, batch files never reused, each non-canceled job ran exactly once at completion. ",
    "C02": "and in H-submit: at every Popen of a job command every configured blocker has a result row on disk. ",
    "C05": "and in H-submit: at every quiescent incomplete point a user try-submit-jobs submits a batch or completes; completion observed once, results.json before the flag, no sbatch afterwards, later commands are no-ops. ",
    "C06": "and in H-submit: the scheduler model's count of queued+running batches after every sbatch <= max_nodes, live job processes per node <= processes-per-node (or CPU count). ",
    "C07": "and in H-submit: the same on the files actually written (config_batch_k.json, #SBATCH lines, run script options), plus dry-run: same first-round batch files as the non-dry run, no sbatch, no launch. ",
}.items():
    CLAIMS[_p]["text"] = CLAIMS[_p]["text"] + " " + _HS + _t
    CLAIMS[_p]["note"] = CLAIMS[_p]["note"] + " " + _HN
_T = "bounded symbolic execution of the real code with z3 (jsym): solver-chosen schedules and inputs, exhaustive path exploration"
_KQ = ("K-queue: the node-level loop - real JobQueue.run_jobs/submit/process_queue/_check_completions driving real AsyncCliCommand objects over a stubbed Popen for all "
       "acyclic digraphs on 3 jobs (4 jobs: fan shapes quick, all DAGs thorough), every queue depth, cancel flags, which processes have exited at each poll and their exit "
       "codes as z3 integers: every launch after all blockers have a recorded outcome, each job launched at most once, running processes <= depth, canceled <=> reference, queue drains. ")
for _p in ("C01", "C02", "C06"):
    CLAIMS[_p]["text"] += " " + _KQ
CLAIMS["C05"]["text"] += (" H-submit/race: two concurrent batches whose nodes' submitter rounds are pre-empted after every release of the cluster lock, "
                          "so that a node is refused promotion while another holds the role (366 of 775 histories) and the documented recovery is needed (247).")
_KC = ("K-collect: real HpcSubmitter._update_completed_jobs/_cancel_job from every invariant-satisfying state of 3 (4) jobs with the round's "
       "collected results (which submitted jobs, finished or canceled on their node, exit code a z3 integer in [-255,255]) symbolic: canceled set = reference fix-point, "
       "newly-completed = collected + canceled, remaining blockers shrink exactly by the jobs whose outcome was recorded. ")
CLAIMS["C02"]["text"] += " " + _KC
CLAIMS["C03"] = dict(text=_HS + "at completion results.json (read through ResultsSummary) has exactly one entry per job, no missing jobs, and every classification equals a reference topological evaluation of the DAG from the chosen exit codes; includes local mode, 2 groups, time-based batching.", note=_HN, technique=_T)
CLAIMS["C04"] = dict(text=_KC + "K-queue: the node-level loop (see C02). " + _HS + "a job is canceled (status canceled, return code != 0, zero launches) exactly when the reference fix-point says so, for failing job and dependants in the same batch, the next batch, or rounds later (batch size 1, max_nodes 1).", note=_HN, technique=_T)
CLAIMS["C09"] = dict(text=_KC + _HS + "after every release of the cluster lock the status is read through Cluster.deserialize and the property's clauses are asserted verbatim (counter order, recounts, done => result row, blockers empty once submitted, versions increase with every change, states/counters/blockers monotone, complete stays complete).", note=_HN, technique=_T)
CLAIMS["C12"] = dict(text=_HS + "with solver-chosen lost batches (sbatch failing on every retry, a pending batch cancelled by the scheduler, a running node killed at any scheduler step): after the documented recovery the submission is complete, results hold exactly the rows recorded before the loss with the real exit codes, missing_jobs = all other jobs, canceled jobs never ran, no job started without its blockers' rows.", note=_HN + " kill -9 of a node is modelled by unwinding its thread and restoring a file-system snapshot taken at the kill point.", technique=_T)

CLAIMS["C18"] = dict(
    text="Seven obligations on the real SlurmManager / HpcSubmitter._create_run_script / HpcManager.submit / AsyncHpcSubmitter.is_complete / run_command: "
    "K-script (all 2^9 set/unset combinations of the optional SlurmConfig fields, run options, 1-2 groups: #SBATCH lines exactly the configured parameters, last line runs the batch's run script, run-script line parsed back by the real click command), "
    "K-status (squeue output over the complete SLURM state vocabulary long+short plus out-of-vocabulary tokens x whitespace patterns x up to 3 lines; is_complete only for absent/finished), "
    "K-sbatch (response vocabulary x 0-7 failing attempts), K-retry (num_retries in [0,6], per-attempt return code a symbolic integer, permanent-error flag: executions <= retries+1, stop at first success / listed permanent error, last attempt's code and output returned, delays), "
    "plus two direct z3 string queries over unbounded strings generated from the live objects: no token outside the finished vocabulary maps to COMPLETE or NONE in SlurmManager._STATUSES, and the language of _REGEX_SBATCH_OUTPUT (translated from re._parser) equals .*'Submitted batch job '[0-9]+.* (witnesses replayed through the real submit).",
    note="sbatch/squeue are stubbed at subprocess.Popen; time.sleep recorded. Finished vocabulary = SLURM terminal states (COMPLETED, COMPLETING, FAILED, CANCELLED, TIMEOUT, NODE_FAIL, PREEMPTED, BOOT_FAIL, DEADLINE, OUT_OF_MEMORY, REVOKED, SPECIAL_EXIT and their short codes). \\d is modelled as [0-9] (ASCII). Whether SLURM accepts --ntasks_per_node spelled with underscores is not claimed.",
    technique="bounded symbolic execution with z3 (jsym) + direct z3 sequence/regex queries generated from the live objects", engine="jsym+z3")
CLAIMS["C20"] = dict(
    text="K-stats: real ResourceMonitorAggregator.update_resource_stats/finalize with samples as z3 reals (k<=3, 4 thorough; system and per-process, processes appearing/disappearing): reported min/max/mean equal those of the samples for every real-valued sample sequence. "
    "K-events: real StructuredLogEvent/log_event/JobRunner._aggregate_events/EventsSummary on real files, <=2 (3) events over <=3 files, names, equal/zero-microsecond stamps and nested data chosen by the solver: lossless, ordered by time within name, idempotent consolidation. "
    "K-tally: Result.is_*/JobSubmitter._build_results/write_results_summary/ResultsSummary.show_results with return codes as symbolic integers in [-1000,1000]: each job in exactly one of successful/failed/canceled/missing.",
    note="psutil stubbed (_get_stats/_get_process_stats return solver reals); statistics over reals, floating-point rounding outside the claim; parquet resource-stat events outside the claim.",
    technique="bounded symbolic execution of the real code with z3 (jsym) over reals and integers")

CLAIMS["C17"] = dict(
    text="K-roundtrip: real GenericCommandConfiguration/GenericCommandParameters/SubmissionGroup built from solver choices (1-3 jobs from 5 field profiles covering every optional field set/unset, unicode/quotes/padding in commands and names, derived vs explicit names, blockers as int or str, 1-3 groups, 4 lifecycle-command sets): dump -> file -> create_config_from_file -> serialize() equal, same order, same fields, second dump byte-identical. "
    "K-config: the same configurations with one injected invalidity (dependency on a nonexistent job, duplicate names, unknown group, max_nodes / poll_interval / hpc_type differing between groups, duplicate group names, estimate above walltime) go through the real `jade submit-jobs` in the world model: rejected with a configuration error and zero sbatch calls; every generated valid configuration is accepted. "
    "K-runtime: JobConfiguration.check_job_runtimes with estimate and walltime as symbolic integers: rejected <=> some estimate*60 > walltime seconds.",
    note="Strings are chosen from a stated vocabulary, not symbolic (pydantic and json are C code). JSON files only (TOML excluded by the property). Only the generic_command extension.",
    technique="bounded symbolic execution of the real code with z3 (jsym): solver-chosen configurations, symbolic integer runtimes")

CLAIMS["C15"] = dict(
    text="K-stage: real PipelineManager.submit_next_stage/_submit_next_stage on a real pipeline.json for every combination of 1-4 stages, persisted stage 1..n+1, requested stage 0..n+2, return code in {None,0,1,-1,255}, submission result 0/1: a stage is submitted only for persisted+1 (or 1 at the start), exactly once, with that stage's configuration and output directory; stage number, per-stage return codes and is_complete afterwards are as specified; every other request is refused with pipeline.json byte-identical. "
    "H-pipeline: whole pipelines of 1-2 (3) stages x 2 jobs through `jade pipeline submit` and the real submit-next-stage invoked by the completing submitter, all schedules of batches/job exits: nothing of stage k+1 is handed to the HPC or started before every job of stage k exited, each transition triggered exactly once, recorded return codes equal the completing submitter's status, pipeline complete only at the end, a duplicate submit-next-stage is refused both after the end and (1-2 stages) injected at any scheduler step while a later stage is queued or running.",
    note=_HN + " JobSubmitter.run_submit_jobs and create_config_from_file are recorders in K-stage only.",
    technique="bounded symbolic execution of the real code with z3 (jsym): solver-chosen stage numbers, return codes and schedules")

CLAIMS["C14"] = dict(
    text="H-cancel: running submissions (3 jobs; unsubmitted jobs left because of max_nodes or dependencies) through the real CLI in the world model with `jade cancel-jobs` (with and without --no-complete) injected by the solver at every scheduler step, followed by solver-chosen try-submit-jobs / show-status -n and the remaining node events: zero sbatch and zero job launches after the instant the canceled flag became readable, scancel issued for every persisted active id and every batch active in the scheduler model, result rows recorded before the cancel preserved, completion reached by the completion step with never-run jobs reported missing.",
    note=_HN + " scancel of a running batch kills its node (thread unwound, file system restored to the kill instant).",
    technique="bounded symbolic execution of the real code with z3 (jsym): solver-chosen cancel instant, schedules and follow-up commands")

CLAIMS["C16"] = dict(
    text="H-hooks: H-submit histories (HPC and local mode) with each of the four lifecycle commands set or unset by the solver (16 combinations), teardown-type commands optionally failing: observed at the subprocess boundary with argv and environment - setup once on the submitting host before the first sbatch/launch, teardown exactly once after every job has a result row and before the completion flag, node setup before the first launch of each batch and node teardown after the last exit and result row of each batch, once per batch, with JADE_RUNTIME_OUTPUT (all four) and JADE_SUBMISSION_GROUP (node commands); every job's result recorded and the submission completes.",
    note=_HN + " Hook commands are model processes whose return code is a solver choice (0/1 for teardown-type hooks; a failing setup hook aborts by design and is outside the claim). Resubmission (teardown again, setup not again) is covered by C13's harness when built.",
    technique="bounded symbolic execution of the real code with z3 (jsym): solver-chosen hook configurations, return codes and schedules")

CLAIMS["C13"] = dict(
    text="K-closure: real resubmit_jobs._get_jobs_to_resubmit/_update_with_blocking_jobs on real config.json/results.json for all digraphs on 3 jobs (cycles included), every outcome mix (successful/failed/canceled/missing) and every flag combination: result = selected jobs plus reflexive-transitive dependants closure, rerun blockers = original blockers within the closure, the iteration-bound assertion never fires; Cluster.prepare_for_resubmission on real files recomputes counters and states. "
    "H-resubmit: submissions run to completion in the world model (solver-chosen exit codes, cancel flags, optionally a lost batch), then `jade resubmit-jobs` with solver-chosen flags and the rerun to completion: jobs started afterwards = closure, each once, after their rerun blockers exited again; results of other jobs unchanged (name, return code, status, times); one entry per job again. On an incomplete submission (nobody / another host / another process on this host holding the submitter role): refused with exit code != 0, no crash, no lock left behind, jobs/results/counters/submitter role unchanged. A crash of the command must leave either the results or a released submitter role.",
    note=_HN + " Outputs are produced without report generation (no events directory), the case the statement singles out; with-reports outputs are outside the bound of this check. The HPC job id column of preserved rows is not compared (the property lists name, return code, status and times).",
    technique="bounded symbolic execution of the real code with z3 (jsym): solver-chosen DAGs, outcomes, flags and schedules")

CLAIMS["C19"] = dict(
    text="K-launch/split (jsym): every command over the alphabet {a, space, tab, ', \", backslash, $, ;, =, -} up to 3 (5 thorough) characters after a leading word, all append_* combinations and three legal job names, through the real GenericCommandParameters -> GenericCommandExecution.generate_command -> AsyncCliCommand.run: argv at Popen == reference POSIX split of the configured command + documented extras, ValueError exactly for malformed commands, JADE_RUNTIME_OUTPUT/JADE_JOB_NAME set, environment inherited, own .o/.e files, no shell. "
    "K-launch/rc: every exit code 0..255 as a z3 integer through the real is_complete/_complete/ResultsAggregator.append/process_results/list_results: the row carries the name, that exit code and the node's SLURM job id. K-launch/real: 72 launches with a real subprocess of a probe that dumps argv/env/cwd and exits with a chosen status. "
    "X-split (CrossHair 0.0.110, symbolic str): for ALL Unicode strings s with len(s) <= 2 (3 thorough) shlex.split(s, posix=True) equals the reference splitter incl. which inputs raise; and for all s with len(s) <= 1 and each append_* combination the argv produced by the real generate_command + AsyncCliCommand.run on 'x'+s equals reference + extras ('Confirmed over all paths').",
    note="The reference is POSIX word splitting and quote removal as Python's shlex defines its POSIX mode; $, back-quote and newline escapes of a real sh are outside the claim (JADE documents 'shell characters not allowed'). The configured command is the one stored by the job model (pydantic strips outer whitespace). Windows (posix=False branch) and job names containing ',' or whitespace are outside the claim. CrossHair could not exhaust len 2 through the JADE path in 600 s; that bound is therefore 1.",
    technique="bounded symbolic execution with z3: jsym for character-by-character commands and exit codes, CrossHair for symbolic Unicode strings", engine="jsym+crosshair")

CLAIMS["C08"] = dict(
    text="H-results: real ResultsAggregator.append/_append_result/process_results/_process_results/move_results/_move_results/list_results on real files; actors are virtual processes (<=2 runners on the same or different batches with <=2 appends each, a collector with <=2 rounds) pre-empted by the solver at every lock acquire, lock release, write-open, remove and rename; every interleaving of the bounded scenario is explored: no result reported to two rounds, collected + still-in-node-files = appended at quiescence, after a final collection every result was reported exactly once, the consolidated file parses, holds exactly the rows written with every field intact and exactly one header, node files always start with their header.",
    note="filelock.SoftFileLock is the marker-file model on the same real files (markers never broken); POSIX append atomicity of one write() is assumed (torn writes outside the claim); crashes belong to C11; more actors than stated are outside the bound.",
    technique="bounded symbolic execution with z3 (jsym): the schedule is a vector of solver variables, exhaustive exploration of interleavings of the real code")

CLAIMS["C10"] = dict(
    text="H-cluster: a real cluster directory and <=2 (3) handles on <=2 hosts performing solver-chosen sequences of <=4 operations over {deserialize, deserialize+promote, promote, demote, update_job_status, mark_canceled, complete_hpc_job_id, deserialize_jobs}: at most one handle holds the submitter role, promotion fails while another holds it and succeeds when nobody does, a handle whose in-memory config or job-status version differs from the version file gets ConfigVersionMismatch/JobStatusVersionMismatch for every write and all four files are byte-identical afterwards, no mismatch for up-to-date copies. "
    "K-version: Cluster._serialize/_serialize_jobs for every pair (in-memory version, on-disk version) in 0..5: rejected <=> different, files unchanged when rejected, version+1 and file rewritten when accepted. H-resubmit (shared with C13): resubmit-jobs on an incomplete submission never changes the submitter role held by another process.",
    note=_HN + " Operations are atomic under the cluster lock, so interleaving is at operation granularity. demote is only issued by a handle that was promoted (as every CLI call site does after the fix d9dd9bb).",
    technique="bounded symbolic execution with z3 (jsym): solver-chosen operation sequences and version numbers, exhaustive exploration")

CLAIMS["C11"] = dict(
    text="H-fault: submissions through the real CLI in the world model (2 independent jobs in two batches of one round; a chain of 3 over three rounds) with ONE fault placed by the solver at every effect point of every submitter round (login-node submit-jobs, compute-node try-submit-jobs, user try-submit-jobs): kill -9 of the round's process, kill of the whole node while it acts as submitter, EDQUOT at each write-open, lock Timeout at each lock acquisition, squeue failing on all retries of one round, sbatch failing on all retries of one submission; effect points are every lock acquire/release, every sbatch/squeue/child command and every write-open/remove/rename of the round; then solver-chosen later try-submit-jobs attempts from two hosts and the documented recovery, under both lock-library behaviours (markers never broken / stale and empty markers broken). Over the whole faulty history: no job in two successfully sbatch'ed batches, no job started twice, every start after its blockers exited, result files still parse, rows present at the fault and rows of every finished job stay readable, a transient squeue failure is followed by normal completion with complete results.",
    note=_HN + " kill -9 = snapshot of the scratch directory and effect log at the kill point, Python stack unwound, snapshot restored. The schedule of node events is fixed (first enabled event): the quantifier of this property is the fault position, schedules are covered by C01-C05. Torn writes inside one write() are outside the claim.",
    technique="bounded symbolic execution with z3 (jsym): the fault kind, position, lock-library behaviour and later attempts are solver variables, exhaustive exploration")

CLAIMS["C03"]["text"] += (" H-submit/user-race: a user's try-submit-jobs started at any scheduler step while batches are running, pre-empted after every lock "
                          "release and before squeue (5.8 k histories); H-submit/states: running batches reported as SUSPENDED/CONFIGURING; H-submit/procs: CPU-count limit.")
CLAIMS["C05"]["text"] += " H-submit/user-race and H-submit/double-recovery (the recovery typed twice on one login host, overlapping); the step clause is also asserted after every recovery round of the histories."
CLAIMS["C07"]["text"] += " K-walltime: SubmitterParams.get_wall_time/_to_timedelta on H:MM:SS strings with 1-3 digit hours (padded or not): parsed duration = H*3600+M*60+S, and check_job_runtimes rejects exactly the estimates above it."
CLAIMS["C17"]["text"] += " K-walltime (see C07). K-roundtrip compares every SubmitterParams field of every group (explicit nulls, explicit values) and K-config includes groups whose monitor interval is below the poll interval."
CLAIMS["C19"]["text"] += (" H-launch: whole submissions (HPC and local) with append_* flags and exit codes {0,3,255} chosen by the solver: argv/env/stdio at Popen and the recorded exit code and HPC job id "
                          "checked through the whole chain config file -> batch config -> JobRunner._generate_jobs -> AsyncCliCommand -> results file.")
CLAIMS["C16"]["text"] += " H-hooks/G2: two submission groups (JADE_SUBMISSION_GROUP must be the batch's group)."
CLAIMS["C14"]["text"] += " H-cancel/time: the same with time-based batching; scancel of an id that is no longer active fails (purged id), as on a real cluster."
CLAIMS["C10"]["text"] += (" H-role: each CLI command that can act as submitter (try-submit-jobs, cancel-jobs, resubmit-jobs, show-status) run while another process on the same or another host holds the role, "
                          "on a complete or incomplete submission: role, state and HPC untouched, no lock left, the holder's next write accepted. H-submit/double-recovery: two overlapping try-submit-jobs on one host.")

CLAIMS["C03"]["text"] += " " + _KC + "(a job canceled twice in one round = two result entries for one job.) H-submit/N3 includes the triangle j0 <- j1, {j0, j1} <- j2."
CLAIMS["C04"]["text"] += " K-queue/N3/nonmanager: the same node-level loop on a node that is not its multi-node batch's manager (records nothing): canceled jobs never started, every other job exactly once, after its blockers' processes exited."
CLAIMS["C16"]["text"] += " H-hooks/resubmit: all four hooks through a submission that completes, is resubmitted and completes again, twice: setup once in total, teardown once per completion after every rerun job has an outcome, node hooks once per batch of each resubmission."
CLAIMS["C10"]["text"] += " H-cluster's operation alphabet includes mark_complete by the role holder (a complete submission whose last submitter has not demoted yet)."
CLAIMS["C17"]["text"] += " K-config chooses max_nodes of both groups from {unset, 3, 7} independently (rejected exactly when they differ)."
CLAIMS["C13"]["text"] += (" H-resubmit/twice: the completed resubmission (exit codes of the rerun solver-chosen, so jobs fail or are canceled again) is resubmitted a second time with solver-chosen flags; "
                          "same oracles in both rounds plus counters == total after each completion. H-resubmit/fault: ONE injected error inside resubmit-jobs at a solver-chosen position - EDQUOT at each write-open "
                          "of a result file or submitter_groups.json, lock Timeout at each lock acquisition before the submission round, sbatch failing on every retry - under the installed filelock's behaviour (stale markers broken); "
                          "violation = rows of the first run pruned AND no way forward, where a way forward means: repeating the same resubmit-jobs is accepted, the documented try-submit-jobs/resubmit-jobs lead to a complete submission with "
                          "one successful entry per job, rows of never-rerun jobs unchanged.")
CLAIMS["C13"]["note"] += (" Fault positions outside the claim (stated, counted in evidence notes): the final role release itself, errors raised inside the submission round (C11's subject: fail-stop refusal accepted), and EDQUOT while "
                          "Cluster.prepare_for_resubmission writes the four cluster state files (JADE's designed fail-stop for an unknown shared state: version mismatch / deliberate deadlock).")

_TODO = "check not built yet in this session (planned in DESIGN.md section 6); not claimed until it exists"
NOT_APPLICABLE = {}
