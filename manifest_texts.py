"""Per-property claim texts for MANIFEST.json (kept next to the obligations registry)."""

ENGINES = [
    dict(name="jsym", path="jsym/", serves_properties=["C01", "C02", "C05", "C06", "C07"],
         kind_free_text="own concolic executor on z3: proxy objects for ints/reals/bools, every branch decided by the solver, replay-based DFS to exhaustion, prefix-sharded over 16 processes; real JADE code runs natively"),
]

_KB = ("One real HpcSubmitter.run() round (real _submit_batches/_make_batch/_BatchJobs/JobQueue/AsyncHpcSubmitter/"
       "HpcManager.submit/Cluster._update_job_status) from every invariant-satisfying cluster state of N<=3 jobs "
       "(all digraphs of remaining blockers, job states, group assignment, up to 2 earlier active batches) with "
       "per_node_batch_size, max_nodes, walltime seconds, processes per node and estimated minutes as unbounded-in-range "
       "z3 integers; ")

CLAIMS = {
    "C01": dict(
        text=_KB + "asserts no job in two batches, no resubmission of submitted jobs, fresh batch ids, persisted set == handed-out set. "
        "Bounded exhaustive symbolic execution: an inductive step over rounds, not a whole-history proof.",
        note="Stubs: sbatch/squeue at SlurmManager.submit / HpcManager.check_statuses, dump_data and _create_run_script recorders, integer-microsecond timedelta model, Cluster file serialization off. Pre-state invariant: only unsubmitted jobs have remaining blockers and none of them is done. Bounds N<=3, G<=2, <=2 earlier batches.",
        technique="bounded symbolic execution of the real code with z3 (jsym), exhaustive path exploration"),
    "C02": dict(
        text=_KB + "asserts that a job is batched only together with all of its remaining blockers, that the serialized blocked_by equals the remaining set, and that remaining blockers never shrink without a result.",
        note="As C01. Node-level ordering (JobQueue) and result collection are separate obligations.",
        technique="bounded symbolic execution of the real code with z3 (jsym), exhaustive path exploration"),
    "C05": dict(
        text=_KB + "asserts the step clause: after a fault-free round a job with no remaining blockers is left unsubmitted only if max_nodes batches are active; the round terminates, does not raise and removes its marker.",
        note="As C01.",
        technique="bounded symbolic execution of the real code with z3 (jsym), exhaustive path exploration"),
    "C06": dict(
        text=_KB + "asserts at every sbatch that (still-active earlier batches + batches submitted so far in the round) < max_nodes, with max_nodes symbolic.",
        note="As C01.",
        technique="bounded symbolic execution of the real code with z3 (jsym), exhaustive path exploration"),
    "C07": dict(
        text=_KB + "asserts per batch: 1 <= size <= per_node_batch_size or sum(estimates)*60 <= walltime_s*processes (symbolic arithmetic), one group per batch, submitted through that group's HPC interface/script, blocked jobs only with try_add_blocked_jobs and blockers in the batch.",
        note="As C01.",
        technique="bounded symbolic execution of the real code with z3 (jsym), exhaustive path exploration"),
}

_TODO = "check not built yet in this session (planned in DESIGN.md section 6); not claimed until it exists"
NOT_APPLICABLE = {p: _TODO for p in ["C03", "C04", "C08", "C09", "C10", "C11", "C12", "C13", "C14", "C15", "C16", "C17", "C18", "C19", "C20"]}
